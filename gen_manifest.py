#!/usr/bin/env python3
"""Regenerates MANIFEST.json from obligations.py (claimed properties) + the N/A table below."""
import json, sys, os
sys.path.insert(0, os.path.dirname(os.path.abspath(__file__)))
import obligations as OB

NA = {
    "C01": "the emulated walk (opath::do_resolve) cannot be symbolically executed by the available engine even on concrete inputs (std PathBuf/VecDeque<OsString>/Itertools on heap buffers; DESIGN §1.2); a hand-summarised encoding would check the summaries, not the code",
    "C02": "needs attacker interleavings inside the same walk; Kani has no concurrency and the code that must react (check_current placement in do_resolve) is inside the loop that cannot be executed",
    "C04": "differential claim over whole operations of two resolvers on the same tree; one side is the walk of C01",
    "C18": "compares three finite artefacts (Rust extern items, C header, Go/Python call sites): no input/schedule space for a solver to quantify over; the one value-level fragment (PATHRS_PROC_* accepted set vs header) is decided in C17/O17.4",
}
NA.update(getattr(OB, "NOT_APPLICABLE", {}))

TECH = "bounded symbolic execution of the real code (Kani 0.68 -> CBMC 6.11 -> CaDiCaL SAT); per-harness unwinding assertions on"

def main():
    checks = []
    for pid in sorted(OB.PROPERTIES):
        p = OB.PROPERTIES[pid]
        checks.append({
            "property_id": pid,
            "quick_cmd": "./check %s --tier quick" % pid,
            "thorough_cmd": "./check %s --tier thorough" % pid,
            "evidence_file": "evidence/%s.json" % pid,
            "replay_cmd_template": "./check %s --replay {path}" % pid,
            "engine": "kani-cbmc",
            "level_claimed": {
                "category": "other",
                "text": "Bounded model checking of the compiled code: for every value of the symbolic inputs within the stated bounds "
                        "(byte strings <= L, full-width integers, arbitrary kernel answers) every listed obligation holds, decided by a SAT solver; "
                        "nothing is claimed outside the bounds or about the stubbed components. " + p.get("explanation", "")[:600],
                "design_ref": "DESIGN.md §3 " + pid,
            },
            "level_note": "Trusted: Kani MIR->goto translation, CBMC/CaDiCaL, the stubs/contracts listed in evidence (kernel model K at the crate::syscalls boundary, "
                          "resolver contract stubs, sequential once_cell shim, alloc::fmt::format stubbed). Assumes: " + "; ".join(p.get("assumptions", [])) +
                          ". Outside: " + p.get("outside", ""),
            "technique": TECH,
        })
    na = [{"property_id": k, "reason": v} for k, v in sorted(NA.items()) if k not in OB.PROPERTIES]
    m = {
        "version": 1,
        "setup_cmd": "./setup.sh",
        "hooks": {
            "guard": "kani",
            "enable": "no hooks in /repo: /verif/check appends `#[cfg(kani)] mod ...;` lines to a scratch COPY of the working tree; cfg(kani) is set only by kani-compiler",
            "baseline_off_cmd": "cd /repo && cargo nextest run --workspace --no-fail-fast --test-threads 8 --offline || cargo test --workspace --no-fail-fast --offline",
            "source_commits": [],
            "add_only": True,
        },
        "engines": [{"name": "kani-cbmc", "path": "check", "serves_properties": sorted(OB.PROPERTIES),
                     "kind_free_text": "Kani 0.68 proof harnesses (harness/*.rs) compiled into a scratch copy of /repo, decided by CBMC 6.11 + CaDiCaL"}],
        "checks": checks,
        "not_applicable": na,
        "notes": "Fixes committed in /repo: see known_findings.json ('fixed'). All checks rebuild from /repo's current working tree.",
    }
    json.dump(m, open(os.path.join(os.path.dirname(os.path.abspath(__file__)), "MANIFEST.json"), "w"), indent=1)
    print("claimed:", sorted(OB.PROPERTIES), "n/a:", [x["property_id"] for x in na])

main()
