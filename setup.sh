#!/bin/bash
# Offline setup: warm a dependency-only Kani target directory so that checks do
# not recompile the registry crates each time (optional: checks work without it).
set -u
cd "$(dirname "$0")"
export CARGO_NET_OFFLINE=true
mkdir -p .cache logs evidence replays
rm -rf .cache/tgt-seed
S=$(mktemp -d /var/tmp/pathrs-verif-setup.XXXXXX)
VERIF_SCRATCH="$S" python3 - <<'PY' || true
import os, sys, subprocess, shutil
sys.path.insert(0, os.getcwd())
import importlib.machinery, importlib.util
loader = importlib.machinery.SourceFileLoader("chk", os.path.join(os.getcwd(), "check"))
spec = importlib.util.spec_from_loader("chk", loader); chk = importlib.util.module_from_spec(spec); loader.exec_module(chk)
import obligations as OB
scratch = os.path.join(os.environ["VERIF_SCRATCH"], "s")
src = chk.prepare(scratch, dict(OB.DEFAULT_BOUNDS["quick"]), chk.header_constants())
tgt = os.path.join(scratch, "tgt")
for ft in ("", "capi"):
    cmd = ["cargo", "kani", "-Z", "stubbing", "-Z", "c-ffi", "--only-codegen", "--target-dir", tgt,
           "--harness", "verif_kani::probe::codegen_probe", "--exact"]
    if ft: cmd += ["--features", ft]
    r = subprocess.run(cmd, cwd=src, env=chk.ENV, stdout=subprocess.PIPE, stderr=subprocess.STDOUT, text=True)
    print("setup build", ft or "default", "rc", r.returncode)
shutil.copytree(tgt, os.path.join(os.getcwd(), ".cache", "tgt-seed"), symlinks=True)
PY
rm -rf "$S"
echo setup done
