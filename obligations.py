"""
Obligation table for /verif/check: property -> harnesses (each one solver-decided
obligation), tiers, caps and what each decides.  See DESIGN.md §3.
"""

DEFAULT_TIMEOUT = {"quick": 1500, "thorough": 3000}
DEFAULT_MEM_GB = 14
MAX_JOBS = 8

# string bound L (bytes) and model table sizes, per tier
DEFAULT_BOUNDS = {
    "quick": {"PATH_L": 4, "MAX_CALLS": 6, "MAX_FDS": 6},
    "thorough": {"PATH_L": 5, "MAX_CALLS": 6, "MAX_FDS": 6},
}

# Per-recursion unwind bounds (CBMC --unwindset), looked up by pretty name in
# the generated goto binary.  The global #[kani::unwind(n)] is sized for the
# string loops (L+3); without these, the recursive drop glue / kind() recursion
# is unrolled n times at every site and dominates symex.  Unwinding assertions
# stay ON: a real nesting deeper than the bound FAILS the harness.
RECURSION_BOUNDS = {
    "error::ErrorImpl::kind": 4,
    "std::ptr::drop_glue::<std::io::Error>": 1,
    "std::ptr::drop_glue::<error::ErrorImpl>": 4,
    "std::ptr::drop_glue::<std::boxed::Box<error::ErrorImpl>>": 4,
    # C08: one retry on a fresh handle is the documented behaviour; a second
    # nested retry fails the recursion unwinding assertion
    "procfs::ProcfsHandle::open::<&std::path::Path, flags::OpenFlags>": 2,
}

ROOT = "root::verif_h_root::"
ERR = "error::verif_h_error::"

OP_STUBS = ["RootRef::resolve_parent", "syscalls::openat_follow", "syscalls::mkdirat", "syscalls::mknodat",
            "syscalls::unlinkat", "syscalls::linkat", "syscalls::symlinkat", "syscalls::renameat2"]


def pick(lst, *ids):
    out = [o for o in lst if o["id"] in ids]
    assert len(out) == len(ids), (ids, [o["id"] for o in out])
    return out


def ob(id, harness, decides, tiers=("quick", "thorough"), **kw):
    d = {"id": id, "harness": harness, "decides": decides, "tiers": tiers}
    d.update(kw)
    return d


def base_nobase(id, stem, decides, unsat_base=("trailing slash refused",), unsat_nobase=("done", "failed", "created", "linked", "renamed"), **kw):
    return [
        ob(id + ".base", ROOT + stem + "_base", decides + " [final component present]",
           covers_may_be_unsat=list(unsat_base), stubs=OP_STUBS, **kw),
        ob(id + ".nobase", ROOT + stem + "_nobase", decides + " [trailing slash / empty path]",
           covers_may_be_unsat=list(unsat_nobase), stubs=OP_STUBS, **kw),
    ]


O_RESOLVE_PARENT = ob(
    "O14.0", ROOT + "root_resolve_parent",
    "RootRef::resolve_parent(path) == (Resolver::resolve(root, ref_dir(path), follow), ref_base(path)) for every byte "
    "string <= L: real path_split / Ancestors::next / wrap chain; base is the literal tail of the input, non-empty, no '/'",
    stubs=["Resolver::resolve", "memchr::memrchr"], cost=3)

O_ERR_EQUIV = [
    ob("OE.%s" % n, ERR + "error_kind_equiv_" + n,
       "Error::kind()/ErrorKind::errno() of leaf variant %s == harness-side cheap_kind() (lemma used by every harness that classifies errors)" % n,
       tiers=t, no_cover_ok=False)
    for n, t in [("notimpl_d0", ("thorough",)), ("notsupp_d0", ("thorough",)), ("inval_d0", ("quick", "thorough")),
                 ("safety_d0", ("thorough",)), ("os_d0", ("quick", "thorough")), ("rawos_d0", ("quick", "thorough")),
                 ("parse_d0", ("thorough",)), ("inval_d2", ("thorough",)), ("safety_d2", ("thorough",)),
                 ("os_d2", ("thorough",)), ("rawos_d2", ("thorough",)), ("rawos_d1", ("quick", "thorough"))]
]

C14_OPS = (
    base_nobase("O14.1", "root_create_mknod_kinds", "create(File|Fifo|CharacterDevice|BlockDevice): exactly one mknodat(resolve_parent fd, base, S_IF*|perm&!S_IFMT, dev verbatim / 0)")
    + base_nobase("O14.2", "root_create_dir", "create(Directory): exactly one mkdirat(parent fd, base, perm&!S_IFMT)")
    + base_nobase("O14.3", "root_create_symlink", "create(Symlink): exactly one symlinkat(target verbatim, parent fd, base)")
    + base_nobase("O14.5", "root_create_file", "create_file: exactly one openat(parent fd, base, flags|O_CREAT|O_NOFOLLOW [+O_CLOEXEC|O_NOCTTY below the wrapper: O5.1b], perm) and the returned fd is that open's fd")
    + base_nobase("O14.6", "root_remove_inode", "remove_file/remove_dir: exactly one unlinkat(parent fd, base, 0|AT_REMOVEDIR)")
)

def two_parent(id, stem, decides):
    return [
        ob(id + ".base", ROOT + stem + "_base", decides + " [both paths have a final component]", stubs=OP_STUBS, covers_may_be_unsat=["trailing slash"], cost=7),
        ob(id + ".nobase2", ROOT + stem + "_nobase2", decides + " [second path has a trailing slash / is empty: InvalidArgument, nothing done]", stubs=OP_STUBS, covers_may_be_unsat=["linked", "renamed"], tiers=("thorough",), cost=6),
        ob(id + ".nobase1", ROOT + stem + "_nobase1", decides + " [first path has a trailing slash / is empty: InvalidArgument, nothing done]", stubs=OP_STUBS, covers_may_be_unsat=["linked", "renamed", "target trailing slash"], tiers=("thorough",), cost=6),
    ]


C14_OPS += two_parent("O14.4", "root_create_hardlink", "create(Hardlink): linkat(parent(target) fd, base(target), parent(path) fd, base(path), 0) after both parents were resolved; new entry's parent first")
C14_OPS += two_parent("O14.7", "root_rename", "rename: renameat2(parent(src) fd, base(src), parent(dst) fd, base(dst), flags verbatim)")

FD = "utils::fd::verif_h_fd::"

O_C09_CAPI = ob("O9.3", "capi::core::verif_h_capi_core::capi_reopen_entry", "pathrs_reopen (C entry point) for EVERY flag word and every negative / one valid descriptor: negative => error id, nothing touched; creation flags => error id, procfs open never reached; otherwise exactly one open_follow with flags minus O_NOFOLLOW and its descriptor returned", features="capi", stubs=["FdExt>::metadata", "ProcfsHandle::open_follow", "store_error", "ProcfsHandle::new"], cost=5)

C09_OBS = [
    ob("O9.1", FD + "fd_proc_subpath_all", "proc_subpath(fd) for EVERY i32: fd >= 0 or AT_FDCWD => Ok, other negatives => InvalidArgument (descriptor number 0 included)", cost=1),
    ob("O9.2a", FD + "fd_reopen_plain", "FdExt::reopen on a non-symlink handle, no creation flags, ALL other flag bits: exactly one open_follow(ProcThreadSelf, ., flags minus O_NOFOLLOW); failing fstat => error, no open", stubs=["FdExt>::metadata", "ProcfsHandle::open_follow"], cost=4),
    ob("O9.2b", FD + "fd_reopen_symlink", "FdExt::reopen on a symlink handle: ELOOP and procfs never consulted", stubs=["FdExt>::metadata", "ProcfsHandle::open_follow"], covers_may_be_unsat=["reopened", "open_follow failed"], cost=4),
    ob("O9.2c", FD + "fd_reopen_creation_flags", "FdExt::reopen with O_CREAT / O_EXCL / O_TMPFILE (all bit patterns containing them): refused, nothing opened", stubs=["FdExt>::metadata", "ProcfsHandle::open_follow"], covers_may_be_unsat=["reopened", "open_follow failed"], cost=4),
]

DIR = "utils::dir::verif_h_dir::"
RA_STUBS = ["syscalls::unlinkat", "syscalls::openat_follow", "Dir::read_from"]
C13_OBS = [
    ob("O13.1a", DIR + "dir_remove_all_unlink_ok", "utils::remove_all(dir, name), every name <= L, unlinkat succeeds: refused names ('', '.', '..', any '/') make ZERO syscalls and fail; otherwise exactly unlinkat(dir,name,0) and Ok", stubs=RA_STUBS, covers_may_be_unsat=["rmdir-ed", "scanned", "scan open failed"], cost=5),
    ob("O13.1b", DIR + "dir_remove_all_rmdir_ok", "... unlink fails (any errno), rmdir succeeds: unlinkat(0) then unlinkat(AT_REMOVEDIR), Ok", stubs=RA_STUBS, covers_may_be_unsat=["unlinked", "scanned", "scan open failed"], cost=5),
    ob("O13.3a", DIR + "dir_remove_inode_contract", "remove_inode(dir,name) real body, arbitrary kernel: unlinkat(0) then unlinkat(AT_REMOVEDIR) on the same (dir,name); Ok if either succeeds; else the errno reported is rmdir's unless that is ENOTDIR (then unlink's)", stubs=["syscalls::unlinkat"], cost=6),
    ob("O13.3d", DIR + "dir_ignore_enoent_all_errnos", "ignore_enoent for EVERY errno 1..=133 in OsError / RawOsError / wrapped form and for non-errno classes: Ok iff the input was Ok or its errno is ENOENT", cost=2),
    ob("O13.3e", DIR + "dir_scan_open_flags", "utils::remove_all, every non-refused name <= L, removal failed with EACCES, the scan open SUCCEEDS (path cut at the listing): the slow path is taken, the open is openat(dir, name) with O_DIRECTORY|O_NOFOLLOW (no O_CREAT/O_TRUNC) and the listing is read from exactly that descriptor", stubs=["remove_inode", "syscalls::openat_follow", "Dir::read_from"], tiers=("thorough",), cost=8),
    ob("O13.3b", DIR + "dir_scan_open_fails", "utils::remove_all, every non-refused name <= L, removal failed with EACCES and the directory-scan open fails with EACCES (remove_inode replaced by its contract O13.3a): the open is openat(dir,name) with O_DIRECTORY|O_NOFOLLOW, the failure is REPORTED (Ok only for ENOENT), exactly two steps", stubs=["remove_inode", "syscalls::openat_follow", "Dir::read_from"], covers_may_be_unsat=["listing failed", "directory vanished"], tiers=("thorough",), timeout={"thorough": 5400}, mem_gb=24, cost=20),
    ob("O13.3c", DIR + "dir_scan_listing", "... removal failed with ENOTEMPTY, scan open succeeds, listing fails with an arbitrary errno: ENOENT => one more removal attempt on the same (dir,name), else that errno; sub-directory fd closed", stubs=["remove_inode", "syscalls::openat_follow", "Dir::read_from"], covers_may_be_unsat=["scan open failed"], tiers=("thorough",), timeout={"thorough": 5400}, mem_gb=30, cost=6),
    ob("O13.1f", DIR + "dir_remove_all_scan_enotempty", "... unlink and rmdir fail with ENOTEMPTY (non-empty directory), scan open succeeds: the open is openat(dir, name, O_DIRECTORY|O_NOFOLLOW), listing failure is reported, sub-directory fd closed [monolithic: no contract stub]", stubs=RA_STUBS, covers_may_be_unsat=["unlinked", "rmdir-ed", "refused", "scan open failed"], tiers=("thorough",), timeout={"thorough": 5400}, mem_gb=30, cost=6),
    ob("O13.1g", DIR + "dir_remove_all_open_eacces", "... unlink, rmdir and the scan open all fail with EACCES: EACCES is reported (never Ok), exactly three calls, scan open flags as above [monolithic]", stubs=RA_STUBS, covers_may_be_unsat=["unlinked", "rmdir-ed", "scanned"], tiers=("thorough",), timeout={"thorough": 5400}, mem_gb=30, cost=6),
    ob("O13.1c", DIR + "dir_remove_all_open_fail", "... unlink, rmdir and the scan open all fail with arbitrary errnos: ENOENT anywhere => Ok, scan open is O_DIRECTORY|O_NOFOLLOW on (dir,name), other errno => that errno", stubs=RA_STUBS, covers_may_be_unsat=["unlinked", "scanned"], tiers=("thorough",), timeout={"thorough": 3000}, cost=6),
    ob("O13.1d", DIR + "dir_remove_all_scan", "... scan open succeeds, directory listing fails with arbitrary errno: ENOENT => final unlink/rmdir attempt, else error; sub-directory fd closed", stubs=RA_STUBS, covers_may_be_unsat=["unlinked", "scan open failed"], tiers=("thorough",), cost=8),
    ob("O13.1e", DIR + "dir_remove_all_any", "... all fault combinations in one query", stubs=RA_STUBS, tiers=("thorough",), cost=10),
]

PF = "procfs::verif_h_procfs::"
OPEN_STUBS = ["ProcfsResolver::resolve", "ProcfsBase::into_path", "ProcfsHandle::new_unmasked", "syscalls::fstatfs", "syscalls::statx"]
O_FETCH_MNT = ob("O6.1", FD + "fd_fetch_mnt_id", "fetch_mnt_id for every statx answer: Some(id) iff the kernel set STATX_MNT_ID[_UNIQUE]; None only for mask-absent / ENOSYS / EINVAL; every other errno is an error (fail closed)", stubs=["syscalls::statx"], cost=3)
O_SAME_MNT = ob("O6.2a", PF + "procfs_verify_same_mnt", "verify_same_mnt for every handle mount id x statx answer: Ok iff equal, else EXDEV, statx failure => that errno", stubs=["syscalls::statx"], cost=3)
O_IS_PROCFS = ob("O6.2b", PF + "procfs_verify_is_procfs", "verify_is_procfs for every fstatfs answer: Ok iff f_type == PROC_SUPER_MAGIC, else EXDEV / errno", stubs=["syscalls::fstatfs"], cost=3)
O_TRY_FROM_FD = ob("O6.3", PF + "procfs_try_from_fd", "ProcfsHandle::try_from_fd under K: Ok only for f_type==procfs and inode 1, mnt_id is the kernel's answer, is_subset iff a probe failed, descriptor closed on refusal", stubs=["syscalls::fstatfs", "syscalls::statx", "FdExt>::metadata", "accessat"], cost=5)
O_OPEN_UNMASKED = ob("O6.4a", PF + "procfs_open_unmasked", "ProcfsHandle::open (unmasked handle) for every base, sub-path <= L, flag word and K: sub-path lookup is forced O_NOFOLLOW with the caller's other bits verbatim; a descriptor is returned only after statx mount-id equality with the handle AND fstatfs==procfs on that very descriptor; no retry; no leak", stubs=OPEN_STUBS, covers_may_be_unsat=["retried once"], tiers=("thorough",), timeout={"thorough": 3000}, cost=8)
O_OPEN_OKPATH = ob("O6.4b", PF + "procfs_open_okpath", "ProcfsHandle::open, every kernel step succeeds, mount ids / fs types / flag word / sub-path symbolic: returned only if statx mount id == handle's AND f_type == procfs on that descriptor, else EXDEV; sub-path lookup forced O_NOFOLLOW", stubs=OPEN_STUBS, covers_may_be_unsat=["ENOENT reported", "retried once"], cost=6)
O_OPEN_LOOKUPFAIL = ob("O6.4c", PF + "procfs_open_lookup_fails", "ProcfsHandle::open on an unmasked handle whose sub-path lookup fails with ANY errno: that error, no retry handle, base descriptor closed", stubs=OPEN_STUBS, covers_may_be_unsat=["opened", "over-mount detected", "retried once"], cost=6)
O_OPEN_RETRY_OK = ob("O8.2", PF + "procfs_open_masked_retry_ok", "masked handle + ENOENT: exactly one retry handle is created, the lookup is repeated on it with the same arguments, its result is verified against ITS mount and returned; retry handle closed", stubs=OPEN_STUBS, covers_may_be_unsat=["ENOENT reported"], tiers=("thorough",), timeout={"thorough": 5400}, mem_gb=30, cost=8)
O_OPEN_RETRY_MASKED = ob("O8.3", PF + "procfs_open_masked_retry_still_masked", "masked handle + ENOENT, and the retry handle is masked as well and also answers ENOENT (unprivileged caller on a hidepid/subset host): ENOENT is reported after ONE retry; no second retry handle (bounded handles/descriptors) [fully real two-level variant: > 30 GB on this machine]", stubs=OPEN_STUBS, covers_may_be_unsat=["opened", "over-mount detected"], tiers=("thorough",), timeout={"thorough": 7200}, mem_gb=40, cost=8)
RETRY_STUBS = ["ProcfsHandle::open_base", "verify_same_procfs_mnt", "ProcfsResolver::resolve", "ProcfsHandle::new_unmasked"]
O_RETRY = [
    ob("O8.4a", PF + "procfs_retry_masked_again", "retry logic of ProcfsHandle::open (open_base / verify_same_procfs_mnt replaced by contracts): masked handle + ENOENT, the handle from new_unmasked is masked AGAIN and also answers ENOENT: exactly one retry handle, ENOENT reported, all descriptors closed", stubs=RETRY_STUBS, covers_may_be_unsat=["retry succeeded", "no retry"], cost=7),
    ob("O8.4b", PF + "procfs_retry_unmasked_handle", "... retry on a really unmasked handle, arbitrary outcome there: one retry, returned descriptor verified by the handle that produced it, retry handle closed", stubs=RETRY_STUBS, covers_may_be_unsat=["no retry"], mem_gb=30, timeout={"quick": 2400, "thorough": 5400}, cost=7),
    ob("O8.4c", PF + "procfs_retry_handle_creation_fails", "... new_unmasked fails: the original ENOENT is reported, nothing leaked", stubs=RETRY_STUBS, covers_may_be_unsat=["retry succeeded", "no retry"], cost=6),
    ob("O8.4d", PF + "procfs_retry_not_for_other_errno", "... lookup fails with EACCES on a masked handle: no retry", stubs=RETRY_STUBS, covers_may_be_unsat=["retry succeeded", "retry did not help"], cost=6),
]
O_OPEN_MASKED = ob("O8.1", PF + "procfs_open_masked", "ProcfsHandle::open on a masked (subset/hidepid) handle: ENOENT is retried on at most ONE freshly created handle (which may itself be masked), returned descriptors verified on the handle that produced them, retry handle closed", stubs=OPEN_STUBS, tiers=("thorough",), timeout={"thorough": 3000}, cost=9)
O_TFF_FAULT = ob("O10.3", PF + "procfs_try_from_fd_fstat_fault", "try_from_fd when the fstat of the candidate handle fails: clean error, no panic, descriptor closed", stubs=["FdExt>::metadata"], covers_may_be_unsat=["masked handle", "unmasked handle"], cost=5)

RP = "resolvers::procfs::verif_h_rprocfs::"
O2 = "resolvers::openat2::verif_h_openat2::"
O_RP_CREAT_O2 = ob("O7.1a", RP + "rprocfs_openat2_creation_refused", "ProcfsResolver::Openat2.resolve with every flag word containing O_CREAT / O_EXCL / O_TMPFILE: InvalidArgument and ZERO syscalls", stubs=["syscalls::openat2", "opath_resolve"], covers_may_be_unsat=["resolved", "lookup failed"], cost=3)
O_RP_CREAT_OP = ob("O7.1b", RP + "rprocfs_opath_creation_refused", "ProcfsResolver::RestrictedOpath.resolve, same", stubs=["syscalls::openat2", "opath_resolve"], covers_may_be_unsat=["resolved", "lookup failed"], cost=3)
O_RP_MASK = ob("O5.2c", RP + "rprocfs_openat2_dispatch_and_mask", "ProcfsResolver::Openat2.resolve for every non-creation flag word, rflags, path <= L: one openat2(root, path, flags verbatim, resolve = BENEATH|NO_XDEV|NO_MAGICLINKS|rflags, mode 0)", stubs=["syscalls::openat2", "opath_resolve"], covers_may_be_unsat=["refused without"], cost=4)
O_RP_DISPATCH = ob("O7.1c", RP + "rprocfs_opath_dispatch", "ProcfsResolver::RestrictedOpath.resolve dispatches once to the emulated walk with arguments verbatim", stubs=["syscalls::openat2", "opath_resolve"], covers_may_be_unsat=["refused without"], cost=4)
O_O2_OPEN = ob("O5.2a", O2 + "openat2_open_mask", "openat2::open for every flag word / rflags / path <= L: openat2(root, path, flags verbatim, resolve = IN_ROOT|NO_MAGICLINKS|rflags, mode 0)", stubs=["syscalls::openat2"], cost=3)
O_O2_RESOLVE = ob("O5.2b", O2 + "openat2_resolve_mask", "openat2::resolve: O_PATH (+O_NOFOLLOW iff no_follow_trailing), resolve = IN_ROOT|NO_MAGICLINKS|rflags", stubs=["syscalls::openat2"], cost=3)
O_O2_EAGAIN = ob("O10.1a", O2 + "openat2_resolve_eagain16", "openat2::resolve when openat2 keeps answering EAGAIN: exactly 16 attempts, then SafetyViolation (never a partial result), nothing leaked", stubs=["syscalls::openat2"], tiers=("thorough",), timeout={"thorough": 7200}, mem_gb=30, cost=6)
O_O2_ENOSYS = ob("O10.1b", O2 + "openat2_resolve_enosys", "openat2::resolve on ENOSYS: NotSupported after one call", stubs=["syscalls::openat2"], cost=3)
O_O2_EMFILE = ob("O10.1c", O2 + "openat2_resolve_emfile", "openat2::resolve on EMFILE: OsError(EMFILE) after one call, no retry", stubs=["syscalls::openat2"], cost=3)

IMP = "resolvers::opath::imp::verif_h_imp::"
MFL_STUBS = ["FdExt>::metadata", "syscalls::geteuid", "sysctl_read_parse", "ProcfsHandle::new"]
C15_OBS = [
    ob("O15.1", IMP + "imp_may_follow_link", "may_follow_link(dir, link) == fs/namei.c rule for EVERY dir mode, dir uid, link uid, euid (u32 each) and every u32 sysctl value; refusal is EACCES", stubs=MFL_STUBS, covers_may_be_unsat=["stat failure refuses"], cost=4),
    ob("O15.2", IMP + "imp_may_follow_link_dirstat_fails", "a failing fstat of the directory never yields permission to follow", stubs=MFL_STUBS, covers_may_be_unsat=["sysctl off", "own link", "link owned", "refused with EACCES"], cost=3),
    ob("O15.3", IMP + "imp_may_follow_link_linkstat_fails", "a failing fstat of the link never yields permission to follow", stubs=MFL_STUBS, covers_may_be_unsat=["sysctl off", "own link", "link owned", "refused with EACCES"], cost=3),
    ob("O15.4", FD + "fd_metadata_body", "FdExt::metadata real body == the metadata contract stub used above (mode/uid/ino of that descriptor, errno on failure)", stubs=["syscalls::fstatat"], tiers=("thorough",), cost=10, timeout={"thorough": 3000}),
]

CU = "capi::utils::verif_h_capi_utils::"
CP = "capi::procfs::verif_h_capi_procfs::"
CC = "capi::core::verif_h_capi_core::"
CAPI_STUBS = ["RootRef::create", "store_error"]
C17_OBS = [
    ob("O17.1a", CU + "capi_copy_path_into_buffer", "copy_path_into_buffer for every body <= L bytes (no NUL) x buffer size 0..=L+2: returns the full length, writes exactly min(len, size) bytes equal to the prefix, canaries around the buffer untouched (+ CBMC pointer checks)", features="capi", covers_may_be_unsat=["NULL buffer with non-zero size"], cost=4),
    ob("O17.1b", CU + "capi_copy_path_null_buffer", "same with a NULL buffer and any size: returns the length, writes nothing", features="capi", covers_may_be_unsat=["truncated copy", "buffer larger", "zero-sized"], cost=3),
    ob("O17.2", CU + "capi_borrowed_fd_all", "CBorrowedFd::try_as_borrowed_fd for EVERY i32: negative => InvalidArgument, else the same number", features="capi", cost=1),
    ob("O17.3", CU + "capi_parse_path_null", "parse_path(NULL) => InvalidArgument", features="capi", cost=1),
    ob("O17.4", CP + "capi_procfs_base_all", "CProcfsBase -> ProcfsBase for EVERY u64: Ok exactly for the three PATHRS_PROC_* values read from include/pathrs.h by the check at run time, mapped to the right base", features="capi", cost=1),
    ob("O17.5a", CC + "capi_mknod_bad_args", "pathrs_inroot_mknod with every negative fd / a NULL path: error id <= -4096, Root::create never reached, no descriptor touched", features="capi", stubs=CAPI_STUBS, cost=4),
    ob("O17.5b", CC + "capi_resolve_bad_args", "pathrs_inroot_resolve with every negative fd / a NULL path: same", features="capi", stubs=["RootRef::resolve", "store_error"], cost=4),
    ob("O17.5c", CC + "capi_second_path_null", "pathrs_inroot_rename / symlink / hardlink with a NULL second path: error id <= -4096, operation never reached, nothing touched", features="capi", stubs=["RootRef::create", "RootRef::rename", "store_error"], cost=4),
    ob("O17.6", CC + "capi_mknod_decode", "pathrs_inroot_mknod for EVERY mode/dev: invalid S_IFMT (socket, link, none, undefined) => error id and no create", features="capi", stubs=CAPI_STUBS, cost=5),
]
C14_CAPI = [
    ob("O14.8", CC + "capi_mknod_decode", "pathrs_inroot_mknod S_IFMT decoding for EVERY mode/dev: REG/DIR/FIFO/CHR/BLK -> matching InodeType with perm = mode minus type bits and dev verbatim", features="capi", stubs=CAPI_STUBS, cost=5),
    ob("O14.9", CC + "capi_mkdir_mode", "pathrs_inroot_mkdir: Directory with perm = mode minus type bits", features="capi", stubs=CAPI_STUBS, tiers=("thorough",), cost=4),
    ob("O14.10", CC + "capi_creat_mode", "pathrs_inroot_creat: create_file(flags verbatim, perm = mode minus type bits)", features="capi", stubs=["RootRef::create_file", "store_error"], tiers=("thorough",), cost=4),
]

MK_STUBS = ["Resolver::resolve_partial", "Handle::reopen", "syscalls::mkdirat", "syscalls::openat_follow"]
C12_OBS = [
    ob("O12.1", ROOT + "root_mkdir_all_bad_mode", "mkdir_all with EVERY mode having a bit outside 0o1777: InvalidArgument and zero lookups/syscalls", stubs=["Resolver::resolve_partial"], cost=2),
    ob("O12.2a", ROOT + "root_mkdir_all_tail_ok", "mkdir_all, partial lookup stopped with ENOENT, EVERY remaining tail <= L and every valid mode, all kernel steps succeed: '..' among the components => ENOENT and nothing created; otherwise exactly mkdirat(cur,c,mode verbatim) + openat(cur,c,O_DIRECTORY|O_NOFOLLOW) per non-empty non-'.' component, chained through the opened fds; returned handle = last opened fd; intermediates closed", stubs=MK_STUBS, covers_may_be_unsat=["aborted midway", "two directories created"], timeout={"quick": 3000, "thorough": 5400}, mem_gb=30, cost=8),
    ob("O12.2b", ROOT + "root_mkdir_all_tail_eexist", "... the first mkdirat answers EEXIST: tolerated, walk continues exactly as above", stubs=MK_STUBS, covers_may_be_unsat=["aborted midway", "nothing to create"], tiers=("thorough",), timeout={"thorough": 5400}, mem_gb=30, cost=8),
    ob("O12.2c", ROOT + "root_mkdir_all_tail_mkdir_fails", "... the first mkdirat fails with EACCES: abort with that errno after that single call, descriptors closed", stubs=MK_STUBS, covers_may_be_unsat=["one directory created", "two directories created"], tiers=("thorough",), timeout={"thorough": 5400}, mem_gb=30, cost=7),
    ob("O12.2d", ROOT + "root_mkdir_all_tail_open_fails", "... the open of the first created component fails: abort, descriptors closed", stubs=MK_STUBS, covers_may_be_unsat=["one directory created", "two directories created"], tiers=("thorough",), timeout={"thorough": 5400}, mem_gb=30, cost=7),
    ob("O12.6a", ROOT + "root_mkdir_all_shape_a_b", "mkdir_all with the concrete tail 'a/b', EVERY valid mode, all kernel steps Ok: mkdirat(reopen fd,'a',mode) openat(..,'a',O_DIRECTORY|O_NOFOLLOW) mkdirat(fd of a,'b',mode) openat(fd of a,'b',..); handle = fd of b; intermediates closed", stubs=MK_STUBS, covers_may_be_unsat=["nothing to create", "one directory created", "dotdot refused", "aborted midway"], cost=8),
    ob("O12.6b", ROOT + "root_mkdir_all_shape_a_dotdot", "mkdir_all with the concrete tail 'a/..': ENOENT before anything is created", stubs=MK_STUBS, covers_may_be_unsat=["nothing to create", "one directory created", "two directories created", "aborted midway"], cost=7),
    ob("O12.6c", ROOT + "root_mkdir_all_shape_dot_a_slash", "mkdir_all with the concrete tail './a/': '.' and the empty component are skipped, exactly one directory", stubs=MK_STUBS, covers_may_be_unsat=["nothing to create", "two directories created", "dotdot refused", "aborted midway"], cost=7),
    ob("O12.6d", ROOT + "root_mkdir_all_shape_a_b_open_fails", "tail 'a/b', the open of the freshly created 'a' fails: abort with that error, nothing else created, every descriptor closed", stubs=MK_STUBS, covers_may_be_unsat=["nothing to create", "one directory created", "two directories created", "dotdot refused"], cost=8),
    ob("O12.6e", ROOT + "root_mkdir_all_shape_a_b_eexist", "tail 'a/b', both mkdirat answer EEXIST (racing creator): tolerated, walk completes", stubs=MK_STUBS, covers_may_be_unsat=["nothing to create", "one directory created", "two directories created", "dotdot refused", "aborted midway"], cost=8),
    ob("O12.2", ROOT + "root_mkdir_all_tail", "mkdir_all when the partial lookup stops with ENOENT and EVERY remaining tail <= L bytes: '..' among the components => ENOENT and nothing created; otherwise exactly mkdirat(cur,c,mode) + openat(cur,c,O_DIRECTORY|O_NOFOLLOW) per non-empty non-'.' component, chained through the opened fds; EEXIST tolerated, any other errno aborts; handle returned = last opened fd; intermediates closed [all fault combinations in one query]", stubs=MK_STUBS, tiers=("thorough",), timeout={"thorough": 5400}, mem_gb=24, cost=9),
    ob("O12.3", ROOT + "root_mkdir_all_complete", "mkdir_all when the path already resolves: O_DIRECTORY reopen of the handle, zero mkdirat", stubs=MK_STUBS, covers_may_be_unsat=["one directory", "two directories", "dotdot refused", "aborted midway"], tiers=("thorough",), timeout={"thorough": 5400}, mem_gb=30, cost=5),
    ob("O12.4", ROOT + "root_mkdir_all_partial_other_error", "mkdir_all when the partial lookup stopped for a reason other than ENOENT: that error, nothing created", stubs=["Resolver::resolve_partial"], covers_may_be_unsat=["nothing to create", "one directory", "two directories", "dotdot refused", "aborted midway"], tiers=("thorough",), cost=5),
    ob("O12.5", ROOT + "root_mkdir_all_resolver_error", "mkdir_all when the resolver fails: error, nothing created", stubs=["Resolver::resolve_partial"], covers_may_be_unsat=["nothing to create", "one directory", "two directories", "dotdot refused", "aborted midway"], tiers=("thorough",), cost=4),
]
O_RA_TOP = [
    ob("O13.2a", ROOT + "root_remove_all_top_base", "Root::remove_all: utils::remove_all is called exactly once on (resolve_parent fd, base)", stubs=["RootRef::resolve_parent", "utils::remove_all"], covers_may_be_unsat=["trailing slash refused"], cost=5),
    ob("O13.2b", ROOT + "root_remove_all_top_nobase", "Root::remove_all with a trailing slash / empty path: InvalidArgument, nothing removed", stubs=["RootRef::resolve_parent", "utils::remove_all"], covers_may_be_unsat=["removed"], cost=4),
]

SY = "syscalls::verif_h_syscalls::"
RX = ["fs::openat", "fs::statat", "fs::statx", "fs::unlinkat", "fs::mkdirat"]
C05_WRAP = [
    ob("O5.1a", SY + "sys_openat_flags", "syscalls::openat real body, EVERY flag word and mode: rustix openat receives flags | O_NOFOLLOW|O_CLOEXEC|O_NOCTTY (nothing removed), same dirfd", stubs=RX, cost=2),
    ob("O5.1b", SY + "sys_openat_follow_flags", "syscalls::openat_follow real body: flags | O_CLOEXEC|O_NOCTTY, O_NOFOLLOW only if the caller set it", stubs=RX, cost=2),
    ob("O5.1c", SY + "sys_stat_flags", "syscalls::fstatat / statx real bodies: always AT_SYMLINK_NOFOLLOW|AT_NO_AUTOMOUNT|AT_EMPTY_PATH, mask verbatim", stubs=RX, cost=2),
    ob("O5.1d", SY + "sys_badfd", "openat/fstatat/statx/unlinkat/mkdirat with EVERY negative descriptor other than AT_FDCWD: InvalidFd, rustix never reached", stubs=RX, cost=2),
]

OF_STUBS = ["ProcfsHandle::readlink", "ProcfsHandle::open", "syscalls::statx", "syscalls::openat_follow"]
O_READLINK = ob("O6.6", PF + "procfs_readlink_body", "ProcfsHandle::readlink, every sub-path <= L: exactly one NO-FOLLOW lookup (ProcfsHandle::open, never open_follow) of that path with exactly O_PATH, then readlinkat(that descriptor, \"\"); descriptor closed", stubs=["ProcfsHandle::open", "ProcfsHandle::open_follow", "syscalls::readlinkat"], cost=3)
O_OF_LINK = ob("O6.5a", PF + "procfs_open_follow_link", "open_follow on a link, every sub-path <= L / flag word / K: parent = open(base, dir part, O_PATH|O_DIRECTORY); the single following openat(parent, last component, caller flags [+O_DIRECTORY on trailing slash]) is issued only after statx(parent, name) reported the parent's mount id; parent closed", stubs=OF_STUBS, covers_may_be_unsat=["plain open"], tiers=("thorough",), cost=7)
O_OF_LINK_NOFAULT = ob("O6.5c", PF + "procfs_open_follow_link_nofault", "open_follow on a link, every sub-path <= L / non-creation flag word, the scenario in which no call before the final open FAILS (answers carry arbitrary data: mount ids, masks): the single following openat(parent, last component, caller flags) happens only after statx(parent, name) reported the parent's mount id (else EXDEV, nothing followed); parent closed", stubs=OF_STUBS, covers_may_be_unsat=["plain open", "creation flags refused"], cost=7)
O_OF_NOTLINK = ob("O6.5b", PF + "procfs_open_follow_notlink", "open_follow on a non-link: exactly the no-follow open of the same (slash-stripped) path, nothing followed", stubs=OF_STUBS, covers_may_be_unsat=["link followed", "over-mounted link refused"], cost=5)

CR = "capi::ret::verif_h_capi_ret::"
C11_CAPI = [
    ob("O11.c1", CR + "capi_ret_ownedfd_ok", "IntoCReturn for Ok(OwnedFd): returns that descriptor's number, does not close it, no error stored", features="capi", stubs=["store_error"], covers_may_be_unsat=["err"], cost=2),
    ob("O11.c2", CR + "capi_ret_handle_ok", "IntoCReturn for Ok(Handle): same", features="capi", stubs=["store_error"], covers_may_be_unsat=["err"], cost=2, tiers=("thorough",)),
    ob("O11.c3", CR + "capi_ret_file_ok", "IntoCReturn for Ok(File): same", features="capi", stubs=["store_error"], covers_may_be_unsat=["err"], cost=2, tiers=("thorough",)),
    ob("O11.c4", CR + "capi_ret_err", "IntoCReturn for Err: id <= -4096 from store_error, nothing left open", features="capi", stubs=["store_error"], covers_may_be_unsat=["ok"], cost=2),
]

NEW_STUBS = ["syscalls::fsopen", "syscalls::open_tree", "syscalls::openat_follow"]
O_NEW_FAIL = ob("O10.4", PF + "procfs_new_all_fail", "ProcfsHandle::new when fsopen, open_tree and open all fail (fd exhaustion): a clean error after exactly one attempt each, nothing left open", stubs=NEW_STUBS, tiers=("thorough",), timeout={"thorough": 7200}, mem_gb=30, cost=4)
O_GLOBAL_INIT = ob("O10.5", PF + "procfs_global_handle_init_fault", "first use of GLOBAL_PROCFS_HANDLE when ProcfsHandle::new() fails (as it does under fd exhaustion: O10.4): must not panic [KNOWN FINDING KF1: it does]", stubs=["ProcfsHandle::new"], covers_may_be_unsat=["reached"], cost=2)
C10_OBS = [O_NEW_FAIL, O_GLOBAL_INIT, O_TFF_FAULT, O_O2_EAGAIN, O_O2_ENOSYS, O_O2_EMFILE, O_FETCH_MNT, O_SAME_MNT, O_IS_PROCFS] + \
    pick(C14_OPS, "O14.6.base", "O14.5.base", "O14.1.base") + \
    pick(C13_OBS, "O13.1a", "O13.1b", "O13.1g", "O13.3a", "O13.3e", "O13.3b", "O13.3c", "O13.3d") + [o for o in O_ERR_EQUIV]
C03_OBS = [O_RESOLVE_PARENT] + [o for o in C14_OPS if o["id"].endswith(".base")] + O_RA_TOP[:1] + pick(C13_OBS, "O13.1a", "O13.1b", "O13.3a", "O13.3e", "O13.3b", "O13.1f")
C11_OBS = C11_CAPI + pick(C14_OPS, "O14.5.base", "O14.5.nobase", "O14.6.base", "O14.1.base", "O14.4.base", "O14.7.base") + [O_RESOLVE_PARENT, O_TRY_FROM_FD, O_OPEN_OKPATH, O_OPEN_LOOKUPFAIL, O_OF_LINK] + pick(C13_OBS, "O13.3c")

WALK_STUBS = ["syscalls::openat_follow", "syscalls::statx", "syscalls::readlinkat", "FdExt>::metadata", "try_clone_to_owned"]
O_WALK_PLAIN = ob("O7.4a", RP + "rprocfs_walk_one_component_plain", "opath_resolve (emulated procfs walk), one component of <= L symbolic bytes that is NOT a symlink, every non-creation flag word, arbitrary kernel: '..' => EXDEV with nothing opened; opens are O_NOFOLLOW single components; each descriptor is statx-checked before use/return", stubs=WALK_STUBS, covers_may_be_unsat=["ELOOP", "link body read"], tiers=("thorough",), timeout={"thorough": 4500}, cost=9)
O_WALK_SLASH = ob("O7.4c", RP + "rprocfs_walk_trailing_slash", "opath_resolve on 'x/' (x not a symlink): the empty trailing component is looked up as '.' relative to x (so a non-directory fails as with the kernel), never dropped", stubs=WALK_STUBS, covers_may_be_unsat=["ELOOP", "link body read"], tiers=("thorough",), timeout={"thorough": 5400}, cost=10)
O_WALK_SYMLINK = ob("O7.4b", RP + "rprocfs_walk_one_component_symlink", "same, the component IS a symlink with body in {y, /y, ../y, ..}: absolute body => ELOOP, '..' in a body => EXDEV, the link descriptor is mount-checked BEFORE its body is read, the spliced component is walked the same way", stubs=WALK_STUBS, tiers=("thorough",), timeout={"thorough": 5400}, cost=10)

PROPERTIES = {
    "C14": {
        "explanation": "C14: every single-entry Root operation is executed on a symbolic path (every byte string <= L), symbolic "
                       "modes/flags/devs and an arbitrary kernel (any call may fail with any errno). resolve_parent is decided "
                       "against an independent reference split (O14.0); each operation is then decided given resolve_parent's "
                       "contract: exactly one *at call on (fd returned for the parent, final name) with the documented arguments, "
                       "none when the path has no final component (InvalidArgument), Ok iff the call succeeded.",
        "outside": "paths longer than L bytes; the in-root resolver itself (stubbed by contract: C01/C02); kernel behaviour of the *at calls; concurrency",
        "assumptions": ["Resolver::resolve returns an arbitrary descriptor inside the root or an arbitrary error (contract stub)",
                        "syscall wrappers replaced by the nondeterministic kernel K at the crate::syscalls boundary",
                        "descriptor numbers concrete (3..); fd-number dependence decided under C09"],
        "obligations": [O_RESOLVE_PARENT] + C14_OPS + C14_CAPI + [o for o in O_ERR_EQUIV],
    },
    "C09": {
        "explanation": "C09: the fd -> /proc/thread-self/fd/N mapping is decided for every 32-bit descriptor number; FdExt::reopen is executed "
                       "for every open-flag bit pattern and an arbitrary kernel with ProcfsHandle::open_follow replaced by a recording contract stub.",
        "outside": "that /proc/thread-self/fd/N denotes the handle's inode whatever happened to its path (kernel magic-link semantics); the procfs side of open_follow (C06/C07); decimal rendering of N (format! is stubbed)",
        "assumptions": ["ProcfsHandle::open_follow replaced by a recording stub with arbitrary result", "fstatat answered by K"],
        "obligations": C09_OBS + [O_C09_CAPI],
    },
    "C13": {
        "explanation": "C13 (sequential part): utils::remove_all is executed for every name of up to L bytes against an arbitrary kernel. "
                       "Decided: which names are refused before any syscall ('.', '..', '', anything with '/'), the fast path unlinkat -> rmdir with its error selection, "
                       "ignore_enoent for every errno, [thorough tier only: 9-20 min per query] the slow path up to the directory-scan open (O_DIRECTORY|O_NOFOLLOW on (dir,name), failure reported, ENOENT tolerated), "
                       "and that Root::remove_all hands exactly (resolved parent, final name) to it.",
        "outside": "everything behind a SUCCESSFUL scan open (listing, recursion, final retry: attempted tier, > 30 GB); that unlinkat on a symlink does not follow it (kernel); concurrent remove_all; names longer than L",
        "assumptions": ["Dir::read_from always fails with an arbitrary errno", "kernel K"],
        "obligations": C13_OBS + O_RA_TOP,
    },
    "C06": {
        "bounds": {"quick": {"MAX_CALLS": 16, "MAX_FDS": 8}, "thorough": {"MAX_CALLS": 16, "MAX_FDS": 8}},
        "explanation": "C06: every verification primitive (fetch_mnt_id, verify_same_mnt, verify_is_procfs, try_from_fd) is decided for every kernel answer, and "
                       "ProcfsHandle::open is executed with the procfs resolver replaced by a stub returning an ARBITRARY descriptor: whatever the resolver "
                       "returns, it leaves open() only after mount-id equality and f_type==procfs were established on that descriptor; open_follow issues its single following open on "
                       "(verified parent, last component) only after statx(parent, name) reported the parent's mount id (quick: the scenario in which no earlier call fails; thorough: every call may fail).",
        "outside": "what a real kernel reports for real over-mounts (statx/fstatfs contracts assumed); racing mounts; that fsopen/open_tree handles are private; the resolver walks themselves (C07)",
        "assumptions": ["ProcfsResolver::resolve returns an arbitrary descriptor or error", "statx/fstatfs answers arbitrary but consistent per descriptor"],
        "obligations": [O_FETCH_MNT, O_SAME_MNT, O_IS_PROCFS, O_TRY_FROM_FD, O_OPEN_OKPATH, O_OPEN_LOOKUPFAIL, O_OPEN_UNMASKED, O_OF_LINK, O_OF_LINK_NOFAULT, O_OF_NOTLINK, O_READLINK],
    },
    "C08": {
        "bounds": {"quick": {"MAX_CALLS": 16, "MAX_FDS": 8}, "thorough": {"MAX_CALLS": 16, "MAX_FDS": 8}},
        "explanation": "C08: the ENOENT-retry logic of ProcfsHandle::open on masked handles, with open_base / verify_same_procfs_mnt / the resolver replaced by contract stubs (each executed for real in C06's harnesses); the stub for new_unmasked counts handles created during one lookup and may return a handle that is itself masked.",
        "outside": "real hidepid/subset mounts and which constructor yields an unmasked procfs (kernel mount semantics); the fully real two-level retry (attempted tier, > 30 GB); wall time",
        "assumptions": ["new_unmasked replaced by a counting stub returning an arbitrary (possibly masked) handle"],
        "obligations": O_RETRY + [O_OPEN_RETRY_OK, O_OPEN_RETRY_MASKED, O_OPEN_LOOKUPFAIL, O_OPEN_MASKED, O_OPEN_UNMASKED],
    },
    "C07": {
        "bounds": {"quick": {"MAX_CALLS": 16, "MAX_FDS": 8}, "thorough": {"MAX_CALLS": 16, "MAX_FDS": 8}},
        "explanation": "C07 (partial): the creation-flag refusal of both procfs resolvers is decided for every 32-bit flag word; ProcfsHandle::open's forced O_NOFOLLOW for every flag word (O6.4a); the kernel resolver's fixed confinement mask; open_follow refuses creation flags for every flag word and follows exactly the last component of a link path.",
        "outside": "the emulated procfs walk itself ('..', absolute links, final-component table) and equality of outcomes between the two resolvers on a live /proc: the walk (opath_resolve) is a heap-container loop this engine does not finish (DESIGN §1.2)",
        "assumptions": ["opath_resolve replaced by a recording stub in the dispatch harnesses"],
        "obligations": [O_RP_CREAT_O2, O_RP_CREAT_OP, O_RP_MASK, O_RP_DISPATCH, O_WALK_PLAIN, O_WALK_SYMLINK, O_WALK_SLASH, O_OPEN_OKPATH, O_OPEN_UNMASKED, O_OF_LINK, O_OF_LINK_NOFAULT, O_OF_NOTLINK, O_READLINK],
    },
    "C15": {
        "explanation": "C15: may_follow_link is executed with the two fstat answers, geteuid and the cached sysctl all symbolic at full width; the oracle is a transcription of fs/namei.c:may_follow_link.",
        "outside": "where in the walk it is called (trailing vs intermediate link: inside do_resolve, not executable here); fsuid != euid processes (the code uses euid); uid_valid() of the parent owner",
        "assumptions": ["FdExt::metadata replaced by its contract stub (decided separately: O15.4)", "sysctl_read_parse::<u32> returns an arbitrary u32", "geteuid arbitrary"],
        "obligations": C15_OBS,
    },
    "C17": {
        "explanation": "C17: the C-boundary helpers are decided for every descriptor number, every procfs-base word, every link body <= L x buffer size, and the entry points pathrs_inroot_mknod / pathrs_inroot_resolve for every negative descriptor and NULL path with Root methods and store_error replaced by recording stubs.",
        "outside": "the other pathrs_* entry points (same closure pattern, not each executed); link bodies longer than L; that callers' buffers really are bufsize bytes",
        "assumptions": ["store_error returns some id <= -4096 (its own behaviour: C16)", "Root::create / resolve replaced by recording stubs"],
        "obligations": C17_OBS,
    },
    "_C12_attempted": {
        "explanation": "C12 (sequential part): Root::mkdir_all is executed with Resolver::resolve_partial and Handle::reopen replaced by contract stubs; the not-yet-existing tail is every byte string <= L, the mode every u32, the kernel arbitrary.",
        "outside": "convergence of concurrent callers (Kani has no threads); that the handle equals an independent in-root resolution (resolver); umask / setgid inheritance (kernel); tails longer than L",
        "assumptions": ["resolve_partial returns (arbitrary in-root fd, arbitrary tail) per its contract", "Handle::reopen returns an arbitrary fd of the same object or an error"],
        "bounds": {"quick": {"PATH_L": 4}, "thorough": {"PATH_L": 4}},
        "obligations": C12_OBS,
    },
    "C05": {
        "explanation": "C05: three layers. (1) wrapper bodies with the boundary at the rustix API: the flags every open/stat wrapper adds, for every flag word. "
                       "(2) the fixed RESOLVE_* masks of both openat2 users for every rflags/oflags. (3) call sites: the operations' harnesses assert for every recorded "
                       "call that the name is one '/'-free component relative to a descriptor (never AT_FDCWD/absolute), and that opens carry O_NOFOLLOW (create_file, remove_all's scan open, procfs open); mkdir_all's call sites are out of reach (C12).",
        "outside": "call sites inside the emulated walks (do_resolve, opath_resolve: not executable here); the O_CLOEXEC added inside syscalls::openat2 itself (variadic libc::syscall unsupported by Kani: openat2 is stubbed as a whole); 'exactly one textual call site of openat_follow' (syntactic)",
        "assumptions": ["rustix entry points replaced by recording stubs in layer 1", "kernel K / resolver contract stubs in layer 3"],
        "obligations": C05_WRAP + [O_O2_OPEN, O_O2_RESOLVE, O_RP_MASK, O_OPEN_OKPATH] + pick(C14_OPS, "O14.5.base", "O14.6.base") + pick(C13_OBS, "O13.3e", "O13.3b"),
    },
}

PROPERTIES["C03"] = {
    "explanation": "C03 (assume/guarantee): with the in-root resolver replaced by a stub returning an ARBITRARY in-root descriptor, every mutating or opening call of every Root operation "
                   "is `*at(fd obtained from the resolver for the parent [or opened O_NOFOLLOW|O_DIRECTORY from it by one safe component], one '/'-free name)`; names '.', '..' and '' never reach "
                   "the kernel where libpathrs itself descends in remove_all (mkdir_all's descent is out of reach of the engine: C12, not applicable); decided for every path <= L and arbitrary kernel answers.",
    "outside": "the resolver (C01/C02); attacker interleavings; remove_all's recursion below the first directory listing; hardlink/rename are in the thorough tier of C14",
    "assumptions": ["Resolver::resolve / resolve_partial / Handle::reopen return arbitrary in-root descriptors (contract)", "kernel K"],
    "bounds": {"quick": {"PATH_L": 4}, "thorough": {"PATH_L": 4}},
    "obligations": C03_OBS,
}
PROPERTIES["C10"] = {
    "explanation": "C10: K lets any call fail with any errno, so every operation harness is also a fault-injection harness (no reachable panic/overflow/index check, unwinding assertions = no unbounded loop, "
                   "Ok only if the required calls answered Ok). Added here: openat2::resolve's ENOSYS/EMFILE handling after one call, errno class mapping (lemma harnesses), fail-closed mount-id probing, "
                   "try_from_fd with a failing fstat and the first use of the global procfs handle when every constructor fails (KF1). "
                   "NOT decided (attempted tier, never finished): the 16-fold EAGAIN retry loop of openat2::resolve and ProcfsHandle::new with every constructor failing.",
    "outside": "faults inside the emulated walks; allocation failure (Kani models allocation as infallible); the Lazy initialisers of fs.protected_symlinks and ProcfsBase::into_path's expect (suspected, not confirmed natively); multi-fault sequences beyond those K generates in one run",
    "assumptions": ["kernel K", "resolver contract stubs"],
    "bounds": {"quick": {"PATH_L": 4}, "thorough": {"PATH_L": 4}},
    "obligations": C10_OBS,
}
PROPERTIES["C11"] = {
    "explanation": "C11: K keeps a descriptor table driven by a model of close(2) linked over CBMC's; every harness asserts at exit that only caller-owned descriptors plus the returned one are open, "
                   "that nothing was closed twice or used after close, that caller descriptors were never closed; the C boundary returns a raw descriptor only for Ok and does not close it.",
    "outside": "the walk's internal Rc<OwnedFd> handling (do_resolve); FD_CLOEXEC is checked as a flag on the creating call (O_CLOEXEC), not via fcntl; attacker interleavings",
    "assumptions": ["close(2) model", "descriptor numbers never reused by the model (a stale use is then a detected use-after-close)"],
    "bounds": {"quick": {"PATH_L": 4}, "thorough": {"PATH_L": 4}},
    "obligations": C11_OBS,
}

NOT_APPLICABLE = {
    "C12": "the loop of Root::mkdir_all over the not-yet-existing tail (iterator chain into Vec<OsString>, per-component mkdirat/openat with ErrorImpl-valued `?`) cannot be decided within reach: "
           "with resolver and reopen stubbed by contract and a CONCRETE fault plan, every variant tried ran out of 30 GB or 50-60 min -- every tail <= 2 bytes (timeout 3600 s), <= 3 bytes (OOM at 57 min), "
           "and even the fully concrete tails 'a/b', 'a/..', './a/' (OOM / timeout 3000 s). The concurrent-convergence half of the property needs threads. Harnesses are kept (root_mkdir_all_*), not claimed. "
           "Decidable fragment, reported here only: every mode with a bit outside 0o1777 => InvalidArgument before any lookup (root_mkdir_all_bad_mode).",
    "C16": "the property is about concurrent histories (many threads failing and consuming ids): Kani/CBMC model no threads. The sequential fragment is not decidable here either: "
           "store_error draws ids with rand's gen_range, whose rejection-sampling loop has no bound an unwinding assertion could establish, Kani cannot stub generic trait methods "
           "(Rng::gen_range), and the table is a std HashMap behind a Mutex. What IS decided elsewhere: errno derivation per error kind (lemma harnesses error_kind_equiv_*, C10), "
           "and that only ids <= -4096 cross the C boundary on errors (C11/C17 with store_error as a contract stub).",
}

# quick tier = per property a set of harnesses that finishes within the 900 s quick budget (<= 8 in parallel); everything else runs in the thorough tier
QUICK_SETS = {
    "C08": ["O8.4a", "O8.4c", "O8.4d", "O6.4c"],
    "C03": ["O14.0", "O14.1.base", "O14.5.base", "O14.6.base", "O14.7.base", "O14.4.base", "O13.2a", "O13.1a", "O13.1b", "O13.3a"],
    "C05": ["O5.1a", "O5.1b", "O5.1c", "O5.1d", "O5.2a", "O5.2b", "O5.2c", "O14.5.base"],  # O13.3e (scan-open flags, 9-15 min with large SAT variance) is C13's quick obligation; for C05 it runs in the thorough tier
    "C10": ["O10.5", "O10.3", "O10.1b", "O10.1c", "O6.1", "O14.5.base", "O14.6.base", "O13.1b", "O13.3a", "O13.3d", "OE.rawos_d0"],
    "C11": ["O11.c1", "O11.c4", "O14.5.base", "O14.5.nobase", "O14.6.base", "O14.1.base", "O14.7.base", "O6.3", "O6.4c"],
    "C14": ["O14.0", "O14.1.base", "O14.2.base", "O14.3.base", "O14.4.base", "O14.5.base", "O14.6.base", "O14.6.nobase", "O14.7.base", "O14.8", "OE.inval_d0", "OE.rawos_d0"],
}

# obligations whose harness uses no environment stub: a counterexample is replayed NATIVELY
# (Kani concrete playback -> cargo kani playback) before it is reported
PURE = {"fd_proc_subpath_all": "h_fd.rs", "capi_borrowed_fd_all": "h_capi_utils.rs", "capi_parse_path_null": "h_capi_utils.rs",
        "capi_procfs_base_all": "h_capi_procfs.rs", "capi_copy_path_into_buffer": "h_capi_utils.rs", "capi_copy_path_null_buffer": "h_capi_utils.rs"}
for _p in PROPERTIES.values():
    for _o in _p["obligations"]:
        _n = _o["harness"].split("::")[-1]
        if _n in PURE:
            _o["pure"] = True
            _o["harness_file"] = PURE[_n]
        if _n.startswith("error_kind_equiv_"):
            _o["pure"] = True
            _o["harness_file"] = "h_error.rs"

# harness sets that exist but are NOT claimed (out of reach, see NOT_APPLICABLE); runnable as `./check C12x`
ATTEMPTED = {"C12x": PROPERTIES.pop("_C12_attempted")}


# Obligations whose single query did not finish on this machine (30 GB / 60-90 min): tier "attempted".
# They are NOT part of quick_cmd / thorough_cmd and not part of any claim; `./check <ID> --tier attempted` runs them.
ATTEMPTED_IDS = {"O13.1c", "O13.1d", "O13.1e", "O13.1f", "O13.1g", "O13.3c", "O8.2", "O8.3", "O7.4a", "O7.4b", "O7.4c", "O10.4", "O10.1a", "O8.1"}
for _p in list(PROPERTIES.values()) + list(ATTEMPTED.values()):
    for _o in _p["obligations"]:
        if _o["id"] in ATTEMPTED_IDS:
            _o["tiers"] = ("attempted",)
for _o in ATTEMPTED["C12x"]["obligations"]:
    _o["tiers"] = ("attempted",)
