"""
Obligation table for /verif/check: property -> harnesses (each one solver-decided
obligation), tiers, caps and what each decides.  See DESIGN.md §3.
"""

DEFAULT_TIMEOUT = {"quick": 900, "thorough": 2400}
DEFAULT_MEM_GB = 14
MAX_JOBS = 12

# string bound L (bytes) and model table sizes, per tier
DEFAULT_BOUNDS = {
    "quick": {"PATH_L": 4, "MAX_CALLS": 6, "MAX_FDS": 6},
    "thorough": {"PATH_L": 5, "MAX_CALLS": 6, "MAX_FDS": 6},
}

# Per-recursion unwind bounds (CBMC --unwindset), looked up by pretty name in
# the generated goto binary.  The global #[kani::unwind(n)] is sized for the
# string loops (L+3); without these, the recursive drop glue / kind() recursion
# is unrolled n times at every site and dominates symex.  Unwinding assertions
# stay ON: a real nesting deeper than the bound FAILS the harness.
RECURSION_BOUNDS = {
    "error::ErrorImpl::kind": 4,
    "std::ptr::drop_glue::<std::io::Error>": 1,
    "std::ptr::drop_glue::<error::ErrorImpl>": 4,
    "std::ptr::drop_glue::<std::boxed::Box<error::ErrorImpl>>": 4,
}

ROOT = "root::verif_h_root::"
ERR = "error::verif_h_error::"

OP_STUBS = ["RootRef::resolve_parent", "syscalls::openat_follow", "syscalls::mkdirat", "syscalls::mknodat",
            "syscalls::unlinkat", "syscalls::linkat", "syscalls::symlinkat", "syscalls::renameat2"]


def ob(id, harness, decides, tiers=("quick", "thorough"), **kw):
    d = {"id": id, "harness": harness, "decides": decides, "tiers": tiers}
    d.update(kw)
    return d


def base_nobase(id, stem, decides, unsat_base=("trailing slash refused",), unsat_nobase=("done", "failed", "created", "linked", "renamed"), **kw):
    return [
        ob(id + ".base", ROOT + stem + "_base", decides + " [final component present]",
           covers_may_be_unsat=list(unsat_base), stubs=OP_STUBS, **kw),
        ob(id + ".nobase", ROOT + stem + "_nobase", decides + " [trailing slash / empty path]",
           covers_may_be_unsat=list(unsat_nobase), stubs=OP_STUBS, **kw),
    ]


O_RESOLVE_PARENT = ob(
    "O14.0", ROOT + "root_resolve_parent",
    "RootRef::resolve_parent(path) == (Resolver::resolve(root, ref_dir(path), follow), ref_base(path)) for every byte "
    "string <= L: real path_split / Ancestors::next / wrap chain; base is the literal tail of the input, non-empty, no '/'",
    stubs=["Resolver::resolve", "memchr::memrchr"], cost=3)

O_ERR_EQUIV = [
    ob("OE.%s" % n, ERR + "error_kind_equiv_" + n,
       "Error::kind()/ErrorKind::errno() of leaf variant %s == harness-side cheap_kind() (lemma used by every harness that classifies errors)" % n,
       tiers=t, no_cover_ok=False)
    for n, t in [("notimpl_d0", ("thorough",)), ("notsupp_d0", ("thorough",)), ("inval_d0", ("quick", "thorough")),
                 ("safety_d0", ("thorough",)), ("os_d0", ("quick", "thorough")), ("rawos_d0", ("quick", "thorough")),
                 ("parse_d0", ("thorough",)), ("inval_d2", ("thorough",)), ("safety_d2", ("thorough",)),
                 ("os_d2", ("thorough",)), ("rawos_d2", ("thorough",)), ("rawos_d1", ("quick", "thorough"))]
]

C14_OPS = (
    base_nobase("O14.1", "root_create_mknod_kinds", "create(File|Fifo|CharacterDevice|BlockDevice): exactly one mknodat(resolve_parent fd, base, S_IF*|perm&!S_IFMT, dev verbatim / 0)")
    + base_nobase("O14.2", "root_create_dir", "create(Directory): exactly one mkdirat(parent fd, base, perm&!S_IFMT)")
    + base_nobase("O14.3", "root_create_symlink", "create(Symlink): exactly one symlinkat(target verbatim, parent fd, base)")
    + base_nobase("O14.5", "root_create_file", "create_file: exactly one openat(parent fd, base, flags|O_CREAT|O_NOFOLLOW|O_CLOEXEC|O_NOCTTY, perm) and the returned fd is that open's fd")
    + base_nobase("O14.6", "root_remove_inode", "remove_file/remove_dir: exactly one unlinkat(parent fd, base, 0|AT_REMOVEDIR)")
)

C14_OPS.append(ob("O14.6.ok", ROOT + "root_remove_inode_okpath", "success path only", covers_may_be_unsat=["failed","refused"]))

FD = "utils::fd::verif_h_fd::"

C09_OBS = [
    ob("O9.1", FD + "fd_proc_subpath_all", "proc_subpath(fd) for EVERY i32: fd >= 0 or AT_FDCWD => Ok, other negatives => InvalidArgument (descriptor number 0 included)", cost=1),
    ob("O9.2a", FD + "fd_reopen_plain", "FdExt::reopen on a non-symlink handle, no creation flags, ALL other flag bits: exactly one open_follow(ProcThreadSelf, ., flags minus O_NOFOLLOW); failing fstat => error, no open", stubs=["syscalls::fstatat", "ProcfsHandle::open_follow"], cost=4),
    ob("O9.2b", FD + "fd_reopen_symlink", "FdExt::reopen on a symlink handle: ELOOP and procfs never consulted", stubs=["syscalls::fstatat", "ProcfsHandle::open_follow"], covers_may_be_unsat=["reopened", "open_follow failed"], cost=4),
    ob("O9.2c", FD + "fd_reopen_creation_flags", "FdExt::reopen with O_CREAT / O_EXCL / O_TMPFILE (all bit patterns containing them): refused, nothing opened", stubs=["syscalls::fstatat", "ProcfsHandle::open_follow"], covers_may_be_unsat=["reopened", "open_follow failed"], cost=4),
]

PROPERTIES = {
    "C14": {
        "explanation": "C14: every single-entry Root operation is executed on a symbolic path (every byte string <= L), symbolic "
                       "modes/flags/devs and an arbitrary kernel (any call may fail with any errno). resolve_parent is decided "
                       "against an independent reference split (O14.0); each operation is then decided given resolve_parent's "
                       "contract: exactly one *at call on (fd returned for the parent, final name) with the documented arguments, "
                       "none when the path has no final component (InvalidArgument), Ok iff the call succeeded.",
        "outside": "paths longer than L bytes; the in-root resolver itself (stubbed by contract: C01/C02); kernel behaviour of the *at calls; concurrency",
        "assumptions": ["Resolver::resolve returns an arbitrary descriptor inside the root or an arbitrary error (contract stub)",
                        "syscall wrappers replaced by the nondeterministic kernel K at the crate::syscalls boundary",
                        "descriptor numbers concrete (3..); fd-number dependence decided under C09"],
        "obligations": [O_RESOLVE_PARENT] + C14_OPS + [o for o in O_ERR_EQUIV],
    },
    "C09": {
        "explanation": "C09: the fd -> /proc/thread-self/fd/N mapping is decided for every 32-bit descriptor number; FdExt::reopen is executed "
                       "for every open-flag bit pattern and an arbitrary kernel with ProcfsHandle::open_follow replaced by a recording contract stub.",
        "outside": "that /proc/thread-self/fd/N denotes the handle's inode whatever happened to its path (kernel magic-link semantics); the procfs side of open_follow (C06/C07); decimal rendering of N (format! is stubbed)",
        "assumptions": ["ProcfsHandle::open_follow replaced by a recording stub with arbitrary result", "fstatat answered by K"],
        "obligations": C09_OBS,
    },
}
