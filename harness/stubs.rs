//! Contract stubs for the parts of libpathrs that this technique cannot
//! execute symbolically (the in-root resolvers, reopen) plus small pure
//! replacements (memchr).  Each is part of the claim of every harness that
//! declares it.
#![allow(dead_code, static_mut_refs, clippy::all)]

use super::kernel::*;
use crate::{
    error::{Error, ErrorImpl},
    resolvers::Resolver,
    Handle,
};

use std::{
    io::Error as IOError,
    os::unix::io::{AsFd, AsRawFd, FromRawFd, OwnedFd},
    path::Path,
};

/// An arbitrary libpathrs error whose *kind* is arbitrary:
/// OsError(any errno) | SafetyViolation | InvalidArgument | NotSupported.
pub fn any_error() -> Error {
    let sel: u8 = kani::any();
    if sel == 0 {
        ErrorImpl::SafetyViolation {
            description: "stub".into(),
        }
        .into()
    } else if sel == 1 {
        ErrorImpl::InvalidArgument {
            name: "stub".into(),
            description: "stub".into(),
        }
        .into()
    } else if sel == 2 {
        ErrorImpl::NotSupported {
            feature: "stub".into(),
        }
        .into()
    } else {
        ErrorImpl::OsError {
            operation: "stub".into(),
            source: IOError::from_raw_os_error(any_errno()),
        }
        .into()
    }
}

/// `Resolver::resolve` — contract: "some object inside the root, or an error".
pub fn k_resolve<Fd: AsFd, P: AsRef<Path>>(
    _this: &Resolver,
    root: Fd,
    path: P,
    no_follow_trailing: bool,
) -> Result<Handle, Error> {
    let raw = root.as_fd().as_raw_fd();
    let (name, name_len) = copy_name(path.as_ref());
    unsafe {
        K.touch(raw);
        let mut c = NO_CALL;
        c.kind = C_RESOLVE;
        c.dirfd = raw;
        c.name = name;
        c.name_len = name_len;
        c.flags = no_follow_trailing as u64;
        if K.fails() {
            c.errno = 1;
            K.push(c);
            Err(any_error())
        } else {
            let fd = K.new_fd(O_RESOLVER, raw, true, (libc::O_PATH | libc::O_CLOEXEC) as u64);
            c.ok = true;
            c.ret_fd = fd;
            K.push(c);
            Ok(Handle::from_fd(OwnedFd::from_raw_fd(fd)))
        }
    }
}

/// naive memchr / memrchr (the real ones dispatch on CPUID = inline asm)
pub fn k_memchr(needle: u8, haystack: &[u8]) -> Option<usize> {
    let mut i = 0;
    while i < haystack.len() {
        if haystack[i] == needle {
            return Some(i);
        }
        i += 1;
    }
    None
}

pub fn k_memrchr(needle: u8, haystack: &[u8]) -> Option<usize> {
    let mut i = haystack.len();
    while i > 0 {
        i -= 1;
        if haystack[i] == needle {
            return Some(i);
        }
    }
    None
}

/// Independent reference for `path_split`: the last '/' splits; an empty
/// directory part means "/", no '/' at all means "."; an empty base is None.
/// Returns (dir_start, dir_len, dir_literal, base_start, base_len, has_base)
/// where dir_literal is 0 (slice of the input), b'.' or b'/'.
pub struct RefSplit {
    pub dir_lit: u8,
    pub dir_len: usize,
    pub has_base: bool,
    pub base_start: usize,
    pub base_len: usize,
}

pub fn ref_split(p: &[u8]) -> RefSplit {
    let mut last: Option<usize> = None;
    let mut i = 0;
    while i < p.len() {
        if p[i] == b'/' {
            last = Some(i);
        }
        i += 1;
    }
    match last {
        None => RefSplit {
            dir_lit: b'.',
            dir_len: 1,
            has_base: !p.is_empty(),
            base_start: 0,
            base_len: p.len(),
        },
        Some(idx) => RefSplit {
            dir_lit: if idx == 0 { b'/' } else { 0 },
            dir_len: if idx == 0 { 1 } else { idx },
            has_base: idx + 1 < p.len(),
            base_start: idx + 1,
            base_len: p.len() - idx - 1,
        },
    }
}

/// does the logged name equal the reference directory part?
pub fn name_is_ref_dir(name: &[u8; NAME_MAX], len: usize, p: &[u8], r: &RefSplit) -> bool {
    if len != r.dir_len {
        return false;
    }
    if r.dir_lit != 0 {
        return name[0] == r.dir_lit;
    }
    let mut i = 0;
    while i < NAME_MAX {
        if i < len && i < p.len() && name[i] != p[i] {
            return false;
        }
        i += 1;
    }
    true
}

pub fn name_is_ref_base(name: &[u8; NAME_MAX], len: usize, p: &[u8], r: &RefSplit) -> bool {
    if !r.has_base || len != r.base_len {
        return false;
    }
    let mut i = 0;
    while i < NAME_MAX {
        if i < len && r.base_start + i < p.len() && name[i] != p[r.base_start + i] {
            return false;
        }
        i += 1;
    }
    true
}
