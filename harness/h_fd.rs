//! child module of `crate::utils::fd`
//!   fd_proc_subpath_all   : proc_subpath for EVERY i32 (C09: descriptor number 0 included)
//!   fd_fetch_mnt_id       : fetch_mnt_id for every statx answer (C06/C10 fail-closed)
//!   fd_reopen_*           : FdExt::reopen = symlink->ELOOP, creation flags refused,
//!                           exactly one open_follow(ProcThreadSelf, fd/N, flags \ O_NOFOLLOW)
#![allow(dead_code, static_mut_refs, clippy::all, unused_imports)]

use super::*;
use crate::error::verif_h_error::cheap_kind;
use crate::error::ErrorKind;
use crate::verif_kani::kernel::*;
use crate::verif_kani::stubs::*;

use std::fs::File;

#[kani::proof]
#[kani::unwind(3)]
#[kani::stub(alloc::fmt::format, k_format)]
fn fd_proc_subpath_all() {
    let fd: i32 = kani::any();
    // a raw number is enough: proc_subpath only needs AsRawFd
    let res = proc_subpath(fd);
    let ok = res.is_ok();
    let kind = match &res {
        Ok(_) => None,
        Err(e) => Some(cheap_kind(e)),
    };
    std::mem::forget(res);
    // every valid descriptor number (>= 0) and AT_FDCWD has a procfs name
    if fd >= 0 || fd == libc::AT_FDCWD {
        assert!(ok, "valid descriptor number must map to a /proc/thread-self sub-path");
    } else {
        assert!(kind == Some(ErrorKind::InvalidArgument));
    }
    kani::cover!(ok && fd == 0, "fd 0 accepted");
    kani::cover!(ok && fd > 2, "ordinary fd accepted");
    kani::cover!(!ok, "negative refused");
}

// ---------------------------------------------------------------------------

#[kani::proof]
#[kani::unwind(6)]
#[kani::stub(crate::syscalls::statx, k_statx)]
#[kani::stub(alloc::fmt::format, k_format)]
fn fd_fetch_mnt_id() {
    install_close_model();
    reset(3);
    let fd = given_fd(false);
    let res = fetch_mnt_id(borrow_fd(fd), "");
    let k = kref();
    assert!(k.ncalls == 1 && k.log[0].kind == C_STATX && k.log[0].dirfd == fd && k.log[0].name_len == 0);
    // both STATX_MNT_ID and STATX_MNT_ID_UNIQUE are requested
    assert!(k.log[0].flags & 0x1000 != 0 && k.log[0].flags & 0x4000 != 0);
    let c = k.log[0];
    let e = k.ent(fd).unwrap();
    match &res {
        Ok(Some(id)) => {
            assert!(c.ok);
            assert!(e.mnt_mask & (0x1000 | 0x4000) != 0);
            assert!(*id == e.mnt_id);
        }
        Ok(None) => {
            // "unknown" only if the kernel did not report it, or statx is unsupported
            assert!((c.ok && e.mnt_mask & (0x1000 | 0x4000) == 0) || (!c.ok && (c.errno == libc::ENOSYS || c.errno == libc::EINVAL)));
        }
        Err(err) => {
            // any other failure fails closed with the kernel's errno
            assert!(!c.ok && c.errno != libc::ENOSYS && c.errno != libc::EINVAL);
            assert!(cheap_kind(err) == ErrorKind::OsError(Some(c.errno)));
        }
    }
    kani::cover!(matches!(&res, Ok(Some(_))), "mount id known");
    kani::cover!(matches!(&res, Ok(None)) && c.ok, "kernel without STATX_MNT_ID");
    kani::cover!(matches!(&res, Ok(None)) && !c.ok, "statx unsupported");
    kani::cover!(res.is_err(), "statx failed");
    std::mem::forget(res);
}

// ---------------------------------------------------------------------------
// `FdExt::metadata` contract stub.  The real body
//     syscalls::fstatat(fd, "").map_err(|err| RawOsError{..})? ; Ok(Metadata(stat))
// materialises a `Result<Stat, ErrorImpl>` (144-byte Ok payload in a union
// with the ~200-byte niche-encoded ErrorImpl); CBMC needs ~250 s for EACH
// assignment to such a value (measured with --show-goto-symex-steps).  The
// body is therefore decided once, on its own (`fd_metadata_body`), and every
// other harness uses this stub: Ok(attributes K fixed for that descriptor) or
// Err(OsError-class error carrying the errno K chose).

pub(crate) fn k_metadata<Fd: AsFd>(this: &Fd) -> Result<Metadata, Error> {
    let raw = this.as_fd().as_raw_fd();
    let k = kmut();
    k.touch(raw);
    let mut c = NO_CALL;
    c.kind = C_FSTATAT;
    c.dirfd = raw;
    if k.fails() {
        c.errno = any_errno();
        k.push(c);
        Err(ErrorImpl::OsError {
            operation: "get fd metadata".into(),
            source: IOError::from_raw_os_error(c.errno),
        }
        .into())
    } else {
        c.ok = true;
        k.push(c);
        let mut st = zero_stat();
        match k.ent(raw) {
            Some(e) => {
                st.st_mode = e.st_mode;
                st.st_uid = e.st_uid;
                st.st_ino = e.st_ino;
            }
            None => {
                st.st_mode = kani::any();
                st.st_uid = kani::any();
                st.st_ino = kani::any();
            }
        }
        Ok(Metadata(st))
    }
}

/// the real `metadata()` body against K's fstatat: same answer as the stub
#[kani::proof]
#[kani::unwind(6)]
#[kani::stub(crate::syscalls::fstatat, k_fstatat)]
#[kani::stub(alloc::fmt::format, k_format)]
fn fd_metadata_body() {
    install_close_model();
    reset(3);
    let fd = given_fd(true);
    let res = borrow_fd(fd).metadata();
    let k = kref();
    assert!(k.ncalls == 1 && k.log[0].kind == C_FSTATAT && k.log[0].dirfd == fd && k.log[0].name_len == 0);
    let e = k.ent(fd).unwrap();
    match &res {
        Ok(m) => {
            assert!(k.log[0].ok);
            assert!(m.mode() == e.st_mode && m.uid() == e.st_uid && m.ino() == e.st_ino);
            assert!(m.is_symlink() == (e.st_mode & libc::S_IFMT == libc::S_IFLNK));
        }
        Err(err) => {
            assert!(!k.log[0].ok);
            assert!(cheap_kind(err) == ErrorKind::OsError(Some(k.log[0].errno)));
        }
    }
    kani::cover!(res.is_ok(), "stat ok");
    kani::cover!(res.is_err(), "stat failed");
    std::mem::forget(res);
}

// ---------------------------------------------------------------------------
// reopen


impl ProcfsHandle {
    /// stub for `ProcfsHandle::open_follow`: records the request and returns an
    /// arbitrary result (the procfs side is decided under C06/C07)
    pub(crate) fn k_open_follow<P: AsRef<Path>, F: Into<OpenFlags>>(
        &self,
        base: ProcfsBase,
        _subpath: P,
        oflags: F,
    ) -> Result<File, Error> {
        of_record(matches!(base, ProcfsBase::ProcThreadSelf), oflags.into().bits())
    }
}

fn of_record(ts: bool, bits: i32) -> Result<File, Error> {
    of_state(ts, bits);
    if kmut().fails() {
        Err(any_error())
    } else {
        let fd = kmut().new_fd(O_OPENED, -1, false, bits as u32 as u64);
        of_ret(fd);
        Ok(File::from(owned_fd(fd)))
    }
}

fn reopen_body(symlink: bool, creation: bool) {
    install_close_model();
    reset(3);
    of_reset();
    let fd = given_fd(true);
    // file type of the handle: concrete per scenario (shape), everything else symbolic
    {
        let k = kmut();
        let i = k.idx(fd).unwrap();
        if symlink {
            k.fds[i].st_mode = (k.fds[i].st_mode & !libc::S_IFMT) | libc::S_IFLNK;
        } else {
            kani::assume(k.fds[i].st_mode & libc::S_IFMT != libc::S_IFLNK);
        }
    }
    let bits: i32 = kani::any();
    let is_creation = bits & (libc::O_CREAT | libc::O_EXCL) != 0 || bits & libc::O_TMPFILE == libc::O_TMPFILE;
    kani::assume(is_creation == creation);
    let flags = OpenFlags::from_bits_retain(bits);
    // a dummy procfs handle: the stubbed open_follow never looks at it
    let procfs = ProcfsHandle::verif_dummy(given_fd(false));
    let res = borrow_fd(fd).reopen(&procfs, flags);
    let (ok, kind, retfd) = match &res {
        Ok(f) => (true, None, f.as_raw_fd()),
        Err(e) => (false, Some(cheap_kind(e)), -1),
    };
    std::mem::forget(res);
    std::mem::forget(procfs);
    let k = kref();
    assert!(!k.any_violation());
    let stat_ok = k.ncalls >= 1 && k.log[0].kind == C_FSTATAT && k.log[0].ok;
    let (calls, oflags, ts, ret) = of_get();
    if symlink && stat_ok {
        // handles that refer to a symlink: ELOOP, procfs never consulted
        assert!(!ok && kind == Some(ErrorKind::OsError(Some(libc::ELOOP))));
        assert!(calls == 0);
    }
    if creation {
        // O_CREAT / O_EXCL / O_TMPFILE are refused as documented, without opening anything
        assert!(!ok, "reopen must refuse creation flags");
        assert!(calls == 0, "creation flags must not reach the kernel");
    }
    if calls > 0 {
        assert!(calls == 1 && ts);
        assert!(stat_ok && !symlink);
        // requested flags minus O_NOFOLLOW, nothing else added or removed here
        assert!(oflags == bits & !libc::O_NOFOLLOW);
    }
    if ok {
        assert!(calls == 1 && retfd == ret);
    }
    if !stat_ok {
        assert!(!ok && calls == 0);
    }
    // C11: the handle stays open, at most the returned fd is new
    assert!(k.ent(fd).unwrap().open);
    kani::cover!(ok, "reopened");
    kani::cover!(!ok && calls == 1, "open_follow failed");
    kani::cover!(!ok && calls == 0, "refused before procfs");
}

macro_rules! reopen_h {
    ($name:ident, $sym:expr, $creat:expr) => {
        #[kani::proof]
        #[kani::unwind(6)]
        #[kani::stub(<std::os::unix::io::BorrowedFd<'static> as crate::utils::FdExt>::metadata, k_metadata)]
        #[kani::stub(crate::procfs::ProcfsHandle::open_follow, crate::procfs::ProcfsHandle::k_open_follow)]
        #[kani::stub(alloc::fmt::format, k_format)]
        fn $name() {
            reopen_body($sym, $creat);
        }
    };
}

reopen_h!(fd_reopen_plain, false, false);
reopen_h!(fd_reopen_symlink, true, false);
reopen_h!(fd_reopen_creation_flags, false, true);

// small safe accessors for the statics above (this module is under forbid(unsafe_code))
fn of_reset() {
    crate::verif_kani::kernel::of_set(0, 0, false, -1);
}
fn of_state(ts: bool, bits: i32) {
    let (c, _, _, r) = crate::verif_kani::kernel::of_get();
    crate::verif_kani::kernel::of_set(c + 1, bits, ts, r);
}
fn of_ret(fd: i32) {
    let (c, b, t, _) = crate::verif_kani::kernel::of_get();
    crate::verif_kani::kernel::of_set(c, b, t, fd);
}
fn of_get() -> (usize, i32, bool, i32) {
    crate::verif_kani::kernel::of_get()
}
