//! child module of `crate::capi::procfs` (feature capi)
//!   capi_procfs_base_all : CProcfsBase -> ProcfsBase for EVERY u64; the accepted values are
//!                          the PATHRS_PROC_* constants read from include/pathrs.h at run time
#![allow(dead_code, static_mut_refs, clippy::all, unused_imports)]

use super::*;
use crate::error::verif_h_error::cheap_kind;
use crate::error::ErrorKind;
use crate::verif_kani::bounds::{HDR_PATHRS_PROC_ROOT, HDR_PATHRS_PROC_SELF, HDR_PATHRS_PROC_THREAD_SELF};
use crate::verif_kani::kernel::k_format;

#[kani::proof]
#[kani::unwind(3)]
#[kani::stub(alloc::fmt::format, k_format)]
fn capi_procfs_base_all() {
    let v: u64 = kani::any();
    let res: Result<ProcfsBase, Error> = CProcfsBase(v).try_into();
    match &res {
        Ok(b) => {
            if v == HDR_PATHRS_PROC_ROOT {
                assert!(matches!(b, ProcfsBase::ProcRoot));
            } else if v == HDR_PATHRS_PROC_SELF {
                assert!(matches!(b, ProcfsBase::ProcSelf));
            } else if v == HDR_PATHRS_PROC_THREAD_SELF {
                assert!(matches!(b, ProcfsBase::ProcThreadSelf));
            } else {
                assert!(false, "unknown procfs base accepted");
            }
        }
        Err(e) => {
            assert!(v != HDR_PATHRS_PROC_ROOT && v != HDR_PATHRS_PROC_SELF && v != HDR_PATHRS_PROC_THREAD_SELF,
                    "a PATHRS_PROC_* value from the header is refused");
            assert!(cheap_kind(e) == ErrorKind::InvalidArgument);
        }
    }
    kani::cover!(matches!(&res, Ok(ProcfsBase::ProcRoot)), "root");
    kani::cover!(matches!(&res, Ok(ProcfsBase::ProcSelf)), "self");
    kani::cover!(matches!(&res, Ok(ProcfsBase::ProcThreadSelf)), "thread-self");
    kani::cover!(res.is_err(), "unknown refused");
    std::mem::forget(res);
}
