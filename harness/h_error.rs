//! child module of `crate::error`
//!
//! `cheap_kind` computes the same `ErrorKind` as the real `Error::kind()`
//! without materialising (and dropping) `io::Error` temporaries: every such
//! drop costs ~10 s of symex, and the real `kind()` recursion is explored
//! arm-by-arm at every level.  Harnesses classify results with `cheap_kind`;
//! the harnesses `error_kind_equiv_*` below decide, per leaf variant and wrap
//! depth, that it agrees with the real `kind()` (and with `errno()` used by
//! the C API).
#![allow(dead_code, clippy::all, unused_imports)]

use super::*;
use crate::verif_kani::kernel::{any_errno, sys_err};

pub(crate) fn cheap_kind(e: &Error) -> ErrorKind {
    let mut cur: &ErrorImpl = &e.0;
    let mut i = 0;
    while i < 3 {
        if let ErrorImpl::Wrapped { source, .. } = cur {
            cur = source;
        } else {
            break;
        }
        i += 1;
    }
    match cur {
        ErrorImpl::NotImplemented { .. } => ErrorKind::NotImplemented,
        ErrorImpl::NotSupported { .. } => ErrorKind::NotSupported,
        ErrorImpl::InvalidArgument { .. } => ErrorKind::InvalidArgument,
        ErrorImpl::SafetyViolation { .. } => ErrorKind::SafetyViolation,
        ErrorImpl::OsError { source, .. } => ErrorKind::OsError(source.raw_os_error()),
        ErrorImpl::RawOsError { source, .. } => ErrorKind::OsError(Some(source.errno().raw_os_error())),
        ErrorImpl::BadSymlinkStackError { .. } | ErrorImpl::ParseIntError(_) => ErrorKind::InternalError,
        // deeper than the harness bound: make the caller's assertion fail
        ErrorImpl::Wrapped { .. } => ErrorKind::OsError(Some(-1)),
    }
}

pub(crate) fn wrap_depth(e: &Error) -> usize {
    let mut cur: &ErrorImpl = &e.0;
    let mut i = 0;
    while i < 3 {
        if let ErrorImpl::Wrapped { source, .. } = cur {
            cur = source;
        } else {
            break;
        }
        i += 1;
    }
    i
}

fn leaf(sel: u8) -> ErrorImpl {
    match sel {
        0 => ErrorImpl::NotImplemented { feature: "x".into() },
        1 => ErrorImpl::NotSupported { feature: "x".into() },
        2 => ErrorImpl::InvalidArgument { name: "x".into(), description: "y".into() },
        3 => ErrorImpl::SafetyViolation { description: "x".into() },
        4 => ErrorImpl::OsError { operation: "x".into(), source: IOError::from_raw_os_error(any_errno()) },
        5 => ErrorImpl::RawOsError { operation: "x".into(), source: sys_err(3, any_errno()) },
        _ => ErrorImpl::ParseIntError("a".parse::<i32>().unwrap_err()),
    }
}

fn equiv(sel: u8, depth: usize) {
    let mut e: Error = leaf(sel).into();
    let mut d = 0;
    while d < depth {
        e = e.wrap("ctx");
        d += 1;
    }
    let real = e.kind();
    let cheap = cheap_kind(&e);
    assert!(real == cheap);
    // errno mapping used by the C API (C16)
    let want_errno = match sel {
        0 => Some(libc::ENOSYS),
        1 => None,
        2 => Some(libc::EINVAL),
        3 => Some(libc::EXDEV),
        4 | 5 => match real { ErrorKind::OsError(x) => x, _ => Some(-1) },
        _ => None,
    };
    assert!(real.errno() == want_errno);
    if sel == 4 || sel == 5 {
        assert!(matches!(real, ErrorKind::OsError(Some(n)) if n >= 1 && n <= 133));
    }
    assert!(real.is_safety_violation() == (real.errno() == Some(libc::EXDEV)));
    std::mem::forget(e);
    kani::cover!(true, "reached");
}

macro_rules! eq_h {
    ($name:ident, $sel:expr, $depth:expr) => {
        #[kani::proof]
        #[kani::unwind(5)]
        #[kani::stub(alloc::fmt::format, crate::verif_kani::kernel::k_format)]
        fn $name() {
            equiv($sel, $depth);
        }
    };
}

eq_h!(error_kind_equiv_notimpl_d0, 0, 0);
eq_h!(error_kind_equiv_notsupp_d0, 1, 0);
eq_h!(error_kind_equiv_inval_d0, 2, 0);
eq_h!(error_kind_equiv_safety_d0, 3, 0);
eq_h!(error_kind_equiv_os_d0, 4, 0);
eq_h!(error_kind_equiv_rawos_d0, 5, 0);
eq_h!(error_kind_equiv_parse_d0, 6, 0);
eq_h!(error_kind_equiv_inval_d2, 2, 2);
eq_h!(error_kind_equiv_safety_d2, 3, 2);
eq_h!(error_kind_equiv_os_d2, 4, 2);
eq_h!(error_kind_equiv_rawos_d2, 5, 2);
eq_h!(error_kind_equiv_rawos_d1, 5, 1);
