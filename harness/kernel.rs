//! K — the nondeterministic kernel used by every environment-dependent harness.
//!
//! Every `crate::syscalls::*` wrapper (and the few direct std / rustix calls)
//! is replaced, per harness, by one of the `k_*` functions below through
//! `#[kani::stub]`.  A stub
//!   * records the call (kind, dirfd, name bytes, flags, mode) in a fixed log,
//!   * checks the argument discipline and sets violation flags (it never
//!     panics: model functions must not pull in the panic machinery),
//!   * answers with an ARBITRARY result allowed by the syscall's contract:
//!     `Err(errno)` for any errno 1..=133, or `Ok` with a fresh descriptor
//!     whose attributes (type, owner, mode, mount id, fs type, inode) are
//!     fresh symbolic values that stay consistent for that descriptor.
//!
//! This is not a filesystem model: there are no directory entries.  What the
//! harnesses decide is what libpathrs does GIVEN arbitrary kernel answers.
#![allow(dead_code, static_mut_refs, clippy::all)]

use crate::{
    flags::{OpenFlags, RenameFlags},
    syscalls::{Error as SysError, OpenHow},
};

use std::{
    os::unix::{
        ffi::OsStrExt,
        io::{AsFd, AsRawFd, FromRawFd, OwnedFd, RawFd},
    },
    path::{Path, PathBuf},
};

use rustix::{
    fs::{AtFlags, Dev, RawMode, Stat, StatFs, Statx, StatxFlags},
    io::Errno,
    mount::{FsMountFlags, FsOpenFlags, MountAttrFlags, OpenTreeFlags},
};

pub const NAME_MAX: usize = super::bounds::PATH_L;
pub const MAX_CALLS: usize = super::bounds::MAX_CALLS;
pub const MAX_FDS: usize = super::bounds::MAX_FDS;

// Call kinds.
pub const C_OPENAT: u8 = 1; // through syscalls::openat_follow (flags as seen there)
pub const C_READLINKAT: u8 = 2;
pub const C_MKDIRAT: u8 = 3;
pub const C_MKNODAT: u8 = 4;
pub const C_UNLINKAT: u8 = 5;
pub const C_LINKAT: u8 = 6;
pub const C_SYMLINKAT: u8 = 7;
pub const C_RENAMEAT2: u8 = 8;
pub const C_FSTATFS: u8 = 9;
pub const C_FSTATAT: u8 = 10;
pub const C_STATX: u8 = 11;
pub const C_OPENAT2: u8 = 12;
pub const C_FSOPEN: u8 = 13;
pub const C_FSCONFIG: u8 = 14;
pub const C_FSMOUNT: u8 = 15;
pub const C_OPEN_TREE: u8 = 16;
pub const C_DUP: u8 = 17;
pub const C_ACCESSAT: u8 = 18;
pub const C_RESOLVE: u8 = 19; // the stubbed in-root resolver (not a syscall)
pub const C_REOPEN: u8 = 20; // the stubbed Handle::reopen (not a syscall)
pub const C_READDIR: u8 = 21; // Dir::read_from
pub const C_PROC_RESOLVE: u8 = 22; // the stubbed ProcfsResolver::resolve

// fault-plan entries
pub const PLAN_N: usize = 16;
pub const P_ANY: u8 = 0;
pub const P_OK: u8 = 1;
pub const P_FAIL: u8 = 2;

// Where a descriptor came from.
pub const O_NONE: u8 = 0;
pub const O_GIVEN: u8 = 1; // handed in by the harness (caller-owned)
pub const O_RESOLVER: u8 = 2; // returned by the stubbed in-root resolver
pub const O_OPENED: u8 = 3; // opened by the library relative to another fd
pub const O_PROC_RESOLVER: u8 = 4; // returned by the stubbed procfs resolver
pub const O_PRIVATE_PROC: u8 = 5; // fsmount / open_tree / open("/proc")

#[derive(Clone, Copy)]
pub struct Call {
    pub kind: u8,
    pub dirfd: i32,
    pub name: [u8; NAME_MAX],
    pub name_len: usize,
    pub dirfd2: i32,
    pub name2: [u8; NAME_MAX],
    pub name2_len: usize,
    pub flags: u64,
    pub mode: u32,
    pub dev: u64,
    pub resolve: u64,
    pub ok: bool,
    pub errno: i32,
    pub ret_fd: i32,
}

pub const NO_CALL: Call = Call {
    kind: 0,
    dirfd: -1,
    name: [0; NAME_MAX],
    name_len: 0,
    dirfd2: -1,
    name2: [0; NAME_MAX],
    name2_len: 0,
    flags: 0,
    mode: 0,
    dev: 0,
    resolve: 0,
    ok: false,
    errno: 0,
    ret_fd: -1,
};

#[derive(Clone, Copy)]
pub struct FdEnt {
    pub open: bool,
    pub closed_once: bool,
    pub origin: u8,
    /// ghost: the object is inside the root's tree by the resolver contract, or
    /// was opened O_NOFOLLOW by a single safe name relative to such an fd.
    pub in_root: bool,
    pub parent: i32,
    pub open_flags: u64,
    // attributes, fixed at creation
    pub st_mode: u32,
    pub st_uid: u32,
    pub st_ino: u64,
    pub mnt_id: u64,
    pub mnt_mask: u32,
    pub f_type: i64,
    /// ghost for C06: mount id + fstype were both checked by libpathrs
    pub statx_seen: bool,
    pub statx_ok: bool,
    pub statfs_seen: bool,
}

pub const NO_FD: FdEnt = FdEnt {
    open: false,
    closed_once: false,
    origin: O_NONE,
    in_root: false,
    parent: -1,
    open_flags: 0,
    st_mode: 0,
    st_uid: 0,
    st_ino: 0,
    mnt_id: 0,
    mnt_mask: 0,
    f_type: 0,
    statx_seen: false,
    statx_ok: false,
    statfs_seen: false,
};

pub struct Kernel {
    pub base: i32,
    pub next: usize,
    pub fds: [FdEnt; MAX_FDS],
    pub log: [Call; MAX_CALLS],
    pub ncalls: usize,
    pub ncalls_total: usize,
    // violation / bookkeeping flags (never panic inside model functions)
    pub v_log_overflow: bool,
    pub v_fd_overflow: bool,
    pub v_name_too_long: bool,
    pub v_double_close: bool,
    pub v_close_given: bool,
    pub v_close_unknown: bool,
    pub v_use_closed: bool,
    pub v_use_unknown: bool,
    pub nclose: usize,
    /// fault plan: when set, every call answers Err.
    pub all_fail: bool,
    pub fixed_errno: i32,
    pub plan: [u8; PLAN_N],
    pub nfallible: usize,
    /// scenario switch for stubs returning Option-shaped data (None = arbitrary)
    pub want_base: [u8; 2],
    pub nsplit: usize,
    /// fault plan: when set, no call fails (success-path harnesses).
    pub no_fail: bool,
    /// when set, openat-like calls must succeed (used by a few harnesses to
    /// reach deep paths cheaply)
    pub force_ok: bool,
}

pub static mut K: Kernel = Kernel {
    base: 3,
    next: 0,
    fds: [NO_FD; MAX_FDS],
    log: [NO_CALL; MAX_CALLS],
    ncalls: 0,
    ncalls_total: 0,
    v_log_overflow: false,
    v_fd_overflow: false,
    v_name_too_long: false,
    v_double_close: false,
    v_close_given: false,
    v_close_unknown: false,
    v_use_closed: false,
    v_use_unknown: false,
    nclose: 0,
    all_fail: false,
    fixed_errno: 0,
    plan: [P_ANY; PLAN_N],
    nfallible: 0,
    want_base: [P_ANY; 2],
    nsplit: 0,
    no_fail: false,
    force_ok: false,
};

/// any errno the kernel may return (1..=133)
pub fn any_errno() -> i32 {
    // scenario harnesses may pin the errno (keeps retry loops concrete)
    let fx = unsafe { K.fixed_errno };
    if fx != 0 {
        return fx;
    }
    let e: i32 = kani::any();
    kani::assume(e >= 1 && e <= 133);
    e
}

pub fn sys_err(fd: RawFd, errno: i32) -> SysError {
    // The cheapest variant: no heap-allocated diagnostics.  `errno()` /
    // `root_cause()` behave identically for every variant.
    SysError::InvalidFd {
        fd,
        source: Errno::from_raw_os_error(errno),
    }
}

pub fn copy_name(p: &Path) -> ([u8; NAME_MAX], usize) {
    let b = p.as_os_str().as_bytes();
    let mut out = [0u8; NAME_MAX];
    let n = b.len();
    let mut i = 0;
    while i < NAME_MAX {
        if i < n {
            out[i] = b[i];
        }
        i += 1;
    }
    if n > NAME_MAX {
        unsafe { K.v_name_too_long = true };
    }
    (out, n)
}

impl Kernel {
    pub fn idx(&self, fd: i32) -> Option<usize> {
        if fd >= self.base && ((fd - self.base) as usize) < self.next {
            Some((fd - self.base) as usize)
        } else {
            None
        }
    }

    pub fn ent(&self, fd: i32) -> Option<&FdEnt> {
        match self.idx(fd) {
            Some(i) => Some(&self.fds[i]),
            None => None,
        }
    }

    /// allocate a fresh descriptor with arbitrary attributes
    pub fn new_fd(&mut self, origin: u8, parent: i32, in_root: bool, open_flags: u64) -> i32 {
        if self.next >= MAX_FDS {
            self.v_fd_overflow = true;
            // keep going with the last slot (flag makes the harness fail)
            self.next = MAX_FDS - 1;
        }
        let i = self.next;
        self.next += 1;
        self.fds[i] = FdEnt {
            open: true,
            closed_once: false,
            origin,
            in_root,
            parent,
            open_flags,
            st_mode: kani::any(),
            st_uid: kani::any(),
            st_ino: kani::any(),
            mnt_id: kani::any(),
            mnt_mask: kani::any(),
            f_type: kani::any(),
            statx_seen: false,
            statx_ok: false,
            statfs_seen: false,
        };
        self.base + i as i32
    }

    /// record use of a descriptor as an argument
    pub fn touch(&mut self, fd: i32) {
        if fd == libc::AT_FDCWD {
            return;
        }
        match self.idx(fd) {
            Some(i) => {
                if !self.fds[i].open {
                    self.v_use_closed = true;
                }
            }
            None => self.v_use_unknown = true,
        }
    }

    pub fn do_close(&mut self, fd: i32) {
        self.nclose += 1;
        match self.idx(fd) {
            Some(i) => {
                if !self.fds[i].open {
                    self.v_double_close = true;
                }
                if self.fds[i].origin == O_GIVEN {
                    self.v_close_given = true;
                }
                self.fds[i].open = false;
                self.fds[i].closed_once = true;
            }
            None => self.v_close_unknown = true,
        }
    }

    pub fn push(&mut self, c: Call) -> usize {
        self.ncalls_total += 1;
        if self.ncalls >= MAX_CALLS {
            self.v_log_overflow = true;
            return MAX_CALLS - 1;
        }
        let i = self.ncalls;
        self.log[i] = c;
        self.ncalls += 1;
        i
    }

    pub fn n_open(&self) -> usize {
        let mut n = 0;
        let mut i = 0;
        while i < MAX_FDS {
            if i < self.next && self.fds[i].open {
                n += 1;
            }
            i += 1;
        }
        n
    }

    pub fn count(&self, kind: u8) -> usize {
        let mut n = 0;
        let mut i = 0;
        while i < MAX_CALLS {
            if i < self.ncalls && self.log[i].kind == kind {
                n += 1;
            }
            i += 1;
        }
        n
    }

    /// number of syscalls that create/remove/rename/open directory entries
    pub fn count_mutating(&self) -> usize {
        self.count(C_MKDIRAT)
            + self.count(C_MKNODAT)
            + self.count(C_UNLINKAT)
            + self.count(C_LINKAT)
            + self.count(C_SYMLINKAT)
            + self.count(C_RENAMEAT2)
    }

    pub fn any_violation(&self) -> bool {
        self.v_log_overflow
            || self.v_fd_overflow
            || self.v_name_too_long
            || self.v_double_close
            || self.v_close_given
            || self.v_close_unknown
            || self.v_use_closed
            || self.v_use_unknown
    }

    /// Does the next fallible call fail?  Decided by the harness' CONCRETE
    /// fault plan where one is given (P_OK / P_FAIL), otherwise arbitrary.
    /// Concrete plans keep the shape of every `Result<_, ErrorImpl>` concrete:
    /// a merged `Ok | Err(ErrorImpl)` value costs ~70 s per `?` in symex.
    pub fn fails(&mut self) -> bool {
        let i = self.nfallible;
        self.nfallible += 1;
        let p = if i < PLAN_N { self.plan[i] } else { P_ANY };
        if self.all_fail || p == P_FAIL {
            true
        } else if self.no_fail || p == P_OK {
            false
        } else {
            kani::any()
        }
    }
}

pub fn reset(base: i32) {
    unsafe {
        K.base = base;
        K.next = 0;
        K.ncalls = 0;
        K.ncalls_total = 0;
        K.nclose = 0;
        K.nfallible = 0;
        K.nsplit = 0;
    }
}

/// descriptor the harness hands to the library (caller-owned)
pub fn given_fd(in_root: bool) -> i32 {
    unsafe { K.new_fd(O_GIVEN, -1, in_root, 0) }
}

pub fn name_is(c: &Call, s: &[u8]) -> bool {
    if c.name_len != s.len() {
        return false;
    }
    let mut i = 0;
    while i < NAME_MAX {
        if i < s.len() && c.name[i] != s[i] {
            return false;
        }
        i += 1;
    }
    true
}

pub fn bytes_eq(a: &[u8; NAME_MAX], alen: usize, b: &[u8], blen: usize) -> bool {
    if alen != blen {
        return false;
    }
    let mut i = 0;
    while i < NAME_MAX {
        if i < alen && i < b.len() && a[i] != b[i] {
            return false;
        }
        i += 1;
    }
    true
}

/// "one safe component": non-empty, no '/', not "." / ".."
pub fn safe_component(name: &[u8; NAME_MAX], len: usize) -> bool {
    if len == 0 || len > NAME_MAX {
        return false;
    }
    let mut i = 0;
    while i < NAME_MAX {
        if i < len && name[i] == b'/' {
            return false;
        }
        i += 1;
    }
    if len == 1 && name[0] == b'.' {
        return false;
    }
    if len == 2 && name[0] == b'.' && name[1] == b'.' {
        return false;
    }
    true
}

/// "one component" in the weaker sense of C05/C14: non-empty and no '/'
pub fn single_component(name: &[u8; NAME_MAX], len: usize) -> bool {
    if len == 0 || len > NAME_MAX {
        return false;
    }
    let mut i = 0;
    while i < NAME_MAX {
        if i < len && name[i] == b'/' {
            return false;
        }
        i += 1;
    }
    true
}

// ---------------------------------------------------------------------------
// close(2) model.  Must be referenced (fn pointer) from the harness so that
// kani-compiler codegens it and it replaces CBMC's built-in model.

// (not compiled for native concrete-playback tests: it would replace libc's close)
#[cfg(not(test))]
#[no_mangle]
pub unsafe extern "C" fn close(fd: i32) -> i32 {
    K.do_close(fd);
    0
}

/// errno is always 0 in the model: std's dev-profile `debug_assert_fd_is_open`
/// (`fcntl(fd, F_GETFD) == -1 && errno == EBADF` => rtabort! with stderr
/// formatting, on every OwnedFd drop) is then statically dead.  Descriptor
/// validity is tracked by K's own table instead.
pub static mut MODEL_ERRNO: i32 = 0;

#[cfg(not(test))]
#[no_mangle]
pub unsafe extern "C" fn __errno_location() -> *mut i32 {
    std::ptr::addr_of_mut!(MODEL_ERRNO)
}

#[cfg(not(test))]
pub fn install_close_model() {
    let f: unsafe extern "C" fn(i32) -> i32 = close;
    let p = f as usize;
    kani::assume(p != 0);
    let g: unsafe extern "C" fn() -> *mut i32 = __errno_location;
    let q = g as usize;
    kani::assume(q != 0);
}
#[cfg(test)]
pub fn install_close_model() {}

// ---------------------------------------------------------------------------
// syscall stubs (signatures mirror crate::syscalls)

pub fn k_openat_follow<Fd: AsFd, P: AsRef<Path>>(
    dirfd: Fd,
    path: P,
    flags: OpenFlags,
    mode: RawMode,
) -> Result<OwnedFd, SysError> {
    let raw = dirfd.as_fd().as_raw_fd();
    let (name, name_len) = copy_name(path.as_ref());
    unsafe {
        K.touch(raw);
        let mut c = NO_CALL;
        c.kind = C_OPENAT;
        c.dirfd = raw;
        c.name = name;
        c.name_len = name_len;
        c.flags = flags.bits() as u32 as u64;
        c.mode = mode;
        let fail = if K.force_ok { false } else { K.fails() };
        if fail {
            c.errno = any_errno();
            K.push(c);
            Err(sys_err(raw, c.errno))
        } else {
            let parent_in_root = match K.ent(raw) {
                Some(e) => e.in_root,
                None => false,
            };
            let nofollow = flags.contains(OpenFlags::O_NOFOLLOW);
            let in_root = parent_in_root && nofollow && safe_component(&name, name_len);
            let fd = K.new_fd(O_OPENED, raw, in_root, c.flags);
            c.ok = true;
            c.ret_fd = fd;
            K.push(c);
            Ok(OwnedFd::from_raw_fd(fd))
        }
    }
}

pub fn k_mkdirat<Fd: AsFd, P: AsRef<Path>>(
    dirfd: Fd,
    path: P,
    mode: RawMode,
) -> Result<(), SysError> {
    let raw = dirfd.as_fd().as_raw_fd();
    let (name, name_len) = copy_name(path.as_ref());
    unsafe {
        K.touch(raw);
        let mut c = NO_CALL;
        c.kind = C_MKDIRAT;
        c.dirfd = raw;
        c.name = name;
        c.name_len = name_len;
        c.mode = mode;
        if K.fails() {
            c.errno = any_errno();
            K.push(c);
            Err(sys_err(raw, c.errno))
        } else {
            c.ok = true;
            K.push(c);
            Ok(())
        }
    }
}

pub fn k_mknodat<Fd: AsFd, P: AsRef<Path>>(
    dirfd: Fd,
    path: P,
    raw_mode: RawMode,
    dev: Dev,
) -> Result<(), SysError> {
    let raw = dirfd.as_fd().as_raw_fd();
    let (name, name_len) = copy_name(path.as_ref());
    unsafe {
        K.touch(raw);
        let mut c = NO_CALL;
        c.kind = C_MKNODAT;
        c.dirfd = raw;
        c.name = name;
        c.name_len = name_len;
        c.mode = raw_mode;
        c.dev = dev as u64;
        if K.fails() {
            c.errno = any_errno();
            K.push(c);
            Err(sys_err(raw, c.errno))
        } else {
            c.ok = true;
            K.push(c);
            Ok(())
        }
    }
}

pub fn k_unlinkat<Fd: AsFd, P: AsRef<Path>>(
    dirfd: Fd,
    path: P,
    flags: AtFlags,
) -> Result<(), SysError> {
    let raw = dirfd.as_fd().as_raw_fd();
    let (name, name_len) = copy_name(path.as_ref());
    unsafe {
        K.touch(raw);
        let mut c = NO_CALL;
        c.kind = C_UNLINKAT;
        c.dirfd = raw;
        c.name = name;
        c.name_len = name_len;
        c.flags = flags.bits() as u64;
        if K.fails() {
            c.errno = any_errno();
            K.push(c);
            Err(sys_err(raw, c.errno))
        } else {
            c.ok = true;
            K.push(c);
            Ok(())
        }
    }
}

pub fn k_linkat<Fd1: AsFd, P1: AsRef<Path>, Fd2: AsFd, P2: AsRef<Path>>(
    old_dirfd: Fd1,
    old_path: P1,
    new_dirfd: Fd2,
    new_path: P2,
    flags: AtFlags,
) -> Result<(), SysError> {
    let raw1 = old_dirfd.as_fd().as_raw_fd();
    let raw2 = new_dirfd.as_fd().as_raw_fd();
    let (name, name_len) = copy_name(old_path.as_ref());
    let (name2, name2_len) = copy_name(new_path.as_ref());
    unsafe {
        K.touch(raw1);
        K.touch(raw2);
        let mut c = NO_CALL;
        c.kind = C_LINKAT;
        c.dirfd = raw1;
        c.name = name;
        c.name_len = name_len;
        c.dirfd2 = raw2;
        c.name2 = name2;
        c.name2_len = name2_len;
        c.flags = flags.bits() as u64;
        if K.fails() {
            c.errno = any_errno();
            K.push(c);
            Err(sys_err(raw1, c.errno))
        } else {
            c.ok = true;
            K.push(c);
            Ok(())
        }
    }
}

/// NB: for symlinkat the log's (dirfd, name) is the NEW entry and name2 the
/// target string.
pub fn k_symlinkat<P1: AsRef<Path>, Fd: AsFd, P2: AsRef<Path>>(
    target: P1,
    dirfd: Fd,
    path: P2,
) -> Result<(), SysError> {
    let raw = dirfd.as_fd().as_raw_fd();
    let (name, name_len) = copy_name(path.as_ref());
    let (name2, name2_len) = copy_name(target.as_ref());
    unsafe {
        K.touch(raw);
        let mut c = NO_CALL;
        c.kind = C_SYMLINKAT;
        c.dirfd = raw;
        c.name = name;
        c.name_len = name_len;
        c.name2 = name2;
        c.name2_len = name2_len;
        if K.fails() {
            c.errno = any_errno();
            K.push(c);
            Err(sys_err(raw, c.errno))
        } else {
            c.ok = true;
            K.push(c);
            Ok(())
        }
    }
}

pub fn k_renameat2<Fd1: AsFd, P1: AsRef<Path>, Fd2: AsFd, P2: AsRef<Path>>(
    old_dirfd: Fd1,
    old_path: P1,
    new_dirfd: Fd2,
    new_path: P2,
    flags: RenameFlags,
) -> Result<(), SysError> {
    let raw1 = old_dirfd.as_fd().as_raw_fd();
    let raw2 = new_dirfd.as_fd().as_raw_fd();
    let (name, name_len) = copy_name(old_path.as_ref());
    let (name2, name2_len) = copy_name(new_path.as_ref());
    unsafe {
        K.touch(raw1);
        K.touch(raw2);
        let mut c = NO_CALL;
        c.kind = C_RENAMEAT2;
        c.dirfd = raw1;
        c.name = name;
        c.name_len = name_len;
        c.dirfd2 = raw2;
        c.name2 = name2;
        c.name2_len = name2_len;
        c.flags = flags.bits() as u64;
        if K.fails() {
            c.errno = any_errno();
            K.push(c);
            Err(sys_err(raw1, c.errno))
        } else {
            c.ok = true;
            K.push(c);
            Ok(())
        }
    }
}

pub fn zero_stat() -> Stat {
    // SAFETY: `Stat` is a plain C struct of integers.
    unsafe { std::mem::zeroed() }
}

pub fn k_fstatat<Fd: AsFd, P: AsRef<Path>>(dirfd: Fd, path: P) -> Result<Stat, SysError> {
    let raw = dirfd.as_fd().as_raw_fd();
    let (name, name_len) = copy_name(path.as_ref());
    unsafe {
        K.touch(raw);
        let mut c = NO_CALL;
        c.kind = C_FSTATAT;
        c.dirfd = raw;
        c.name = name;
        c.name_len = name_len;
        if K.fails() {
            c.errno = any_errno();
            K.push(c);
            Err(sys_err(raw, c.errno))
        } else {
            c.ok = true;
            K.push(c);
            let mut st = zero_stat();
            if name_len == 0 {
                // the descriptor itself: consistent per fd
                match K.ent(raw) {
                    Some(e) => {
                        st.st_mode = e.st_mode;
                        st.st_uid = e.st_uid;
                        st.st_ino = e.st_ino;
                    }
                    None => {
                        st.st_mode = kani::any();
                        st.st_uid = kani::any();
                        st.st_ino = kani::any();
                    }
                }
            } else {
                st.st_mode = kani::any();
                st.st_uid = kani::any();
                st.st_ino = kani::any();
            }
            Ok(st)
        }
    }
}

pub fn k_fstatfs<Fd: AsFd>(fd: Fd) -> Result<StatFs, SysError> {
    let raw = fd.as_fd().as_raw_fd();
    unsafe {
        K.touch(raw);
        let mut c = NO_CALL;
        c.kind = C_FSTATFS;
        c.dirfd = raw;
        if K.fails() {
            c.errno = any_errno();
            K.push(c);
            Err(sys_err(raw, c.errno))
        } else {
            c.ok = true;
            K.push(c);
            let mut st: StatFs = std::mem::zeroed();
            match K.idx(raw) {
                Some(i) => {
                    st.f_type = K.fds[i].f_type as _;
                    K.fds[i].statfs_seen = true;
                }
                None => st.f_type = kani::any(),
            }
            Ok(st)
        }
    }
}

/// statx: mount id consistent per (fd, "") ; arbitrary for (fd, name).
/// The last answer for a named lookup is remembered in `LAST_NAMED_MNT`.
pub static mut LAST_NAMED_MNT: (i32, u64, u32) = (-1, 0, 0);

pub fn k_statx<Fd: AsFd, P: AsRef<Path>>(
    dirfd: Fd,
    path: P,
    mask: StatxFlags,
) -> Result<Statx, SysError> {
    let raw = dirfd.as_fd().as_raw_fd();
    let (name, name_len) = copy_name(path.as_ref());
    unsafe {
        K.touch(raw);
        let mut c = NO_CALL;
        c.kind = C_STATX;
        c.dirfd = raw;
        c.name = name;
        c.name_len = name_len;
        c.flags = mask.bits() as u64;
        if name_len == 0 {
            if let Some(i) = K.idx(raw) {
                K.fds[i].statx_seen = true; // attempted on the descriptor itself
            }
        }
        if K.fails() {
            c.errno = any_errno();
            K.push(c);
            Err(sys_err(raw, c.errno))
        } else {
            c.ok = true;
            K.push(c);
            let mut stx: Statx = std::mem::zeroed();
            if name_len == 0 {
                match K.idx(raw) {
                    Some(i) => {
                        stx.stx_mnt_id = K.fds[i].mnt_id;
                        stx.stx_mask = K.fds[i].mnt_mask;
                        K.fds[i].statx_ok = true;
                    }
                    None => {
                        stx.stx_mnt_id = kani::any();
                        stx.stx_mask = kani::any();
                    }
                }
            } else {
                stx.stx_mnt_id = kani::any();
                stx.stx_mask = kani::any();
                LAST_NAMED_MNT = (raw, stx.stx_mnt_id, stx.stx_mask);
            }
            Ok(stx)
        }
    }
}

pub fn k_openat2<Fd: AsFd, P: AsRef<Path>>(
    dirfd: Fd,
    path: P,
    how: &OpenHow,
) -> Result<OwnedFd, SysError> {
    let raw = dirfd.as_fd().as_raw_fd();
    let (name, name_len) = copy_name(path.as_ref());
    unsafe {
        K.touch(raw);
        let mut c = NO_CALL;
        c.kind = C_OPENAT2;
        c.dirfd = raw;
        c.name = name;
        c.name_len = name_len;
        c.flags = how.flags;
        c.mode = how.mode as u32;
        c.resolve = how.resolve;
        if K.fails() {
            c.errno = any_errno();
            K.push(c);
            Err(sys_err(raw, c.errno))
        } else {
            let parent_in_root = match K.ent(raw) {
                Some(e) => e.in_root,
                None => false,
            };
            let confined = how.resolve & (libc::RESOLVE_IN_ROOT | libc::RESOLVE_BENEATH) != 0;
            let fd = K.new_fd(O_OPENED, raw, parent_in_root && confined, c.flags);
            c.ok = true;
            c.ret_fd = fd;
            K.push(c);
            Ok(OwnedFd::from_raw_fd(fd))
        }
    }
}

pub fn k_readlinkat_err<Fd: AsFd, P: AsRef<Path>>(dirfd: Fd, path: P) -> Result<PathBuf, SysError> {
    // readlinkat that can only fail (link bodies need heap strings; harnesses
    // that need a body use their own stub)
    let raw = dirfd.as_fd().as_raw_fd();
    let (name, name_len) = copy_name(path.as_ref());
    unsafe {
        K.touch(raw);
        let mut c = NO_CALL;
        c.kind = C_READLINKAT;
        c.dirfd = raw;
        c.name = name;
        c.name_len = name_len;
        c.errno = any_errno();
        K.push(c);
        Err(sys_err(raw, c.errno))
    }
}

pub fn k_geteuid() -> u32 {
    kani::any()
}

pub fn k_gettid() -> i32 {
    let t: i32 = kani::any();
    kani::assume(t > 0);
    t
}

pub fn k_fsopen<S: AsRef<str>>(_fstype: S, flags: FsOpenFlags) -> Result<OwnedFd, SysError> {
    unsafe {
        let mut c = NO_CALL;
        c.kind = C_FSOPEN;
        c.flags = flags.bits() as u64;
        if K.fails() {
            c.errno = any_errno();
            K.push(c);
            Err(sys_err(-1, c.errno))
        } else {
            let fd = K.new_fd(O_OPENED, -1, false, libc::O_CLOEXEC as u64);
            c.ok = true;
            c.ret_fd = fd;
            K.push(c);
            Ok(OwnedFd::from_raw_fd(fd))
        }
    }
}

pub fn k_fsconfig_set_string<Fd: AsFd, Kk: AsRef<str>, V: AsRef<str>>(
    sfd: Fd,
    _key: Kk,
    _value: V,
) -> Result<(), SysError> {
    let raw = sfd.as_fd().as_raw_fd();
    unsafe {
        K.touch(raw);
        let mut c = NO_CALL;
        c.kind = C_FSCONFIG;
        c.dirfd = raw;
        if K.fails() {
            c.errno = any_errno();
            K.push(c);
            Err(sys_err(raw, c.errno))
        } else {
            c.ok = true;
            K.push(c);
            Ok(())
        }
    }
}

pub fn k_fsconfig_create<Fd: AsFd>(sfd: Fd) -> Result<(), SysError> {
    let raw = sfd.as_fd().as_raw_fd();
    unsafe {
        K.touch(raw);
        let mut c = NO_CALL;
        c.kind = C_FSCONFIG;
        c.dirfd = raw;
        c.flags = 1;
        if K.fails() {
            c.errno = any_errno();
            K.push(c);
            Err(sys_err(raw, c.errno))
        } else {
            c.ok = true;
            K.push(c);
            Ok(())
        }
    }
}

pub fn k_fsmount<Fd: AsFd>(
    sfd: Fd,
    flags: FsMountFlags,
    _attrs: MountAttrFlags,
) -> Result<OwnedFd, SysError> {
    let raw = sfd.as_fd().as_raw_fd();
    unsafe {
        K.touch(raw);
        let mut c = NO_CALL;
        c.kind = C_FSMOUNT;
        c.dirfd = raw;
        c.flags = flags.bits() as u64;
        if K.fails() {
            c.errno = any_errno();
            K.push(c);
            Err(sys_err(raw, c.errno))
        } else {
            let fd = K.new_fd(O_PRIVATE_PROC, raw, false, libc::O_CLOEXEC as u64);
            c.ok = true;
            c.ret_fd = fd;
            K.push(c);
            Ok(OwnedFd::from_raw_fd(fd))
        }
    }
}

pub fn k_open_tree<Fd: AsFd, P: AsRef<Path>>(
    dirfd: Fd,
    path: P,
    flags: OpenTreeFlags,
) -> Result<OwnedFd, SysError> {
    let raw = dirfd.as_fd().as_raw_fd();
    let (name, name_len) = copy_name(path.as_ref());
    unsafe {
        K.touch(raw);
        let mut c = NO_CALL;
        c.kind = C_OPEN_TREE;
        c.dirfd = raw;
        c.name = name;
        c.name_len = name_len;
        c.flags = flags.bits() as u64;
        if K.fails() {
            c.errno = any_errno();
            K.push(c);
            Err(sys_err(raw, c.errno))
        } else {
            let fd = K.new_fd(O_PRIVATE_PROC, raw, false, libc::O_CLOEXEC as u64);
            c.ok = true;
            c.ret_fd = fd;
            K.push(c);
            Ok(OwnedFd::from_raw_fd(fd))
        }
    }
}

/// `BorrowedFd::try_clone_to_owned` (fcntl F_DUPFD_CLOEXEC — variadic libc)
pub struct DupStub<'a>(std::marker::PhantomData<&'a ()>);
impl<'a> DupStub<'a> {
    pub fn k_try_clone_to_owned(fd: &std::os::unix::io::BorrowedFd<'a>) -> std::io::Result<OwnedFd> {
        let raw = fd.as_raw_fd();
        unsafe {
            K.touch(raw);
            let mut c = NO_CALL;
            c.kind = C_DUP;
            c.dirfd = raw;
            if K.fails() {
                c.errno = any_errno();
                K.push(c);
                Err(std::io::Error::from_raw_os_error(c.errno))
            } else {
                let (in_root, flags) = match K.ent(raw) {
                    Some(e) => (e.in_root, e.open_flags),
                    None => (false, 0),
                };
                let nfd = K.new_fd(O_OPENED, raw, in_root, flags | libc::O_CLOEXEC as u64);
                // a dup refers to the same object: same attributes
                if let (Some(i), Some(j)) = (K.idx(raw), K.idx(nfd)) {
                    K.fds[j].st_mode = K.fds[i].st_mode;
                    K.fds[j].st_uid = K.fds[i].st_uid;
                    K.fds[j].st_ino = K.fds[i].st_ino;
                    K.fds[j].mnt_id = K.fds[i].mnt_id;
                    K.fds[j].mnt_mask = K.fds[i].mnt_mask;
                    K.fds[j].f_type = K.fds[i].f_type;
                }
                c.ok = true;
                c.ret_fd = nfd;
                K.push(c);
                Ok(OwnedFd::from_raw_fd(nfd))
            }
        }
    }
}

/// `alloc::fmt::format` — messages are not the subject of any property.
pub fn k_format(_args: std::fmt::Arguments<'_>) -> String {
    String::new()
}

// ---------------------------------------------------------------------------
// safe accessors (harness modules that are children of `#![forbid(unsafe_code)]`
// modules cannot contain `unsafe`)

pub fn kref() -> &'static Kernel {
    unsafe { &K }
}
pub fn kmut() -> &'static mut Kernel {
    unsafe { &mut K }
}
pub fn borrow_fd(raw: i32) -> std::os::unix::io::BorrowedFd<'static> {
    unsafe { std::os::unix::io::BorrowedFd::borrow_raw(raw) }
}
pub fn owned_fd(raw: i32) -> OwnedFd {
    unsafe { OwnedFd::from_raw_fd(raw) }
}

/// std's dev-profile `debug_assert_fd_is_open` (fcntl + rtabort! formatting to
/// stderr on every OwnedFd drop) — diagnostic only, replaced by a no-op.
pub fn k_noop_fd(_fd: RawFd) {}

// record of calls to the stubbed ProcfsHandle::open_follow (h_fd.rs)
pub static mut OF: (usize, i32, bool, i32) = (0, 0, false, -1);
pub fn of_set(c: usize, b: i32, t: bool, r: i32) {
    unsafe { OF = (c, b, t, r) }
}
pub fn of_get() -> (usize, i32, bool, i32) {
    unsafe { OF }
}

// generic counters for contract stubs
pub static mut COUNTERS: [usize; 4] = [0; 4];
pub fn counter_inc(i: usize) -> usize {
    unsafe {
        COUNTERS[i] += 1;
        COUNTERS[i]
    }
}
pub fn counter_get(i: usize) -> usize {
    unsafe { COUNTERS[i] }
}
pub fn counter_reset() {
    unsafe { COUNTERS = [0; 4] }
}

// euid / sysctl model values: symbolic, fixed per run, readable by the harness
pub static mut MODEL_EUID: Option<u32> = None;
pub static mut MODEL_SYSCTL: Option<u32> = None;
pub fn model_euid() -> u32 {
    unsafe {
        if MODEL_EUID.is_none() {
            MODEL_EUID = Some(kani::any());
        }
        MODEL_EUID.unwrap()
    }
}
pub fn model_sysctl() -> u32 {
    unsafe {
        if MODEL_SYSCTL.is_none() {
            MODEL_SYSCTL = Some(kani::any());
        }
        MODEL_SYSCTL.unwrap()
    }
}
pub fn k_model_geteuid() -> u32 {
    model_euid()
}
/// `utils::sysctl_read_parse::<u32>`: any value the parser can produce.
pub fn k_sysctl_read_parse<T>(_procfs: &crate::procfs::ProcfsHandle, _sysctl: &str) -> Result<T, crate::error::Error>
where
    T: std::str::FromStr,
    crate::error::Error: From<T::Err>,
{
    let v: u32 = model_sysctl();
    assert!(std::mem::size_of::<T>() == 4);
    // SAFETY: only instantiated at T = u32 (asserted by size; the only caller)
    Ok(unsafe { std::mem::transmute_copy::<u32, T>(&v) })
}

// four scratch words for recording stubs
pub static mut SCRATCH: (u64, u64, u64, u64) = (0, 0, 0, 0);
pub fn scratch_set(a: u64, b: u64, c: u64, d: u64) {
    unsafe { SCRATCH = (a, b, c, d) }
}
pub fn scratch_get() -> (u64, u64, u64, u64) {
    unsafe { SCRATCH }
}

// symbolic "remaining tail" handed to the resolve_partial stub
pub static mut TAIL: ([u8; super::bounds::PATH_L], usize) = ([0; super::bounds::PATH_L], 0);
pub fn tail_set(b: &[u8; super::bounds::PATH_L], len: usize) {
    unsafe { TAIL = (*b, len) }
}
pub fn tail_get() -> ([u8; super::bounds::PATH_L], usize) {
    unsafe { TAIL }
}

pub fn last_named_mnt() -> (i32, u64, u32) {
    unsafe { LAST_NAMED_MNT }
}

// ---------------------------------------------------------------------------
