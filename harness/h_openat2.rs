//! child module of `crate::resolvers::openat2` (kernel backend of the in-root resolver)
//!   openat2_open_mask / openat2_resolve_mask : RESOLVE_IN_ROOT|RESOLVE_NO_MAGICLINKS always set,
//!        O_PATH (+O_NOFOLLOW iff asked) for handles, caller flags verbatim for one-shot opens (C05)
//!   openat2_resolve_eagain16 : EAGAIN is retried exactly 16 times, then SafetyViolation (C10)
//!   openat2_resolve_enosys / _errno : error mapping after ONE call
#![allow(dead_code, static_mut_refs, clippy::all, unused_imports)]

use super::*;
use crate::error::verif_h_error::cheap_kind;
use crate::error::ErrorKind;
use crate::verif_kani::bounds::PATH_L;
use crate::verif_kani::kernel::*;
use crate::verif_kani::stubs::*;

use std::ffi::OsStr;
use std::os::unix::ffi::OsStrExt;
use std::os::unix::io::AsRawFd;

fn real_calls() -> (usize, Call) {
    // calls other than the one-time "is openat2 supported" probe
    let k = kref();
    let mut n = 0;
    let mut last = NO_CALL;
    let mut i = 0;
    while i < MAX_CALLS {
        if i < k.ncalls {
            let c = k.log[i];
            if !(c.kind == C_OPENAT2 && c.dirfd == libc::AT_FDCWD) {
                n += 1;
                last = c;
            }
        }
        i += 1;
    }
    (n, last)
}

fn mask_body(oneshot: bool) {
    install_close_model();
    reset(3);
    let root = given_fd(true);
    kmut().plan[0] = P_OK; // probe: openat2 supported
    kmut().plan[1] = P_OK; // the lookup itself succeeds (error mapping: other harnesses)
    let buf: [u8; PATH_L] = kani::any();
    let len: usize = kani::any();
    kani::assume(len <= PATH_L);
    let p = Path::new(OsStr::from_bytes(&buf[..len]));
    let rbits: u64 = kani::any();
    let rflags = ResolverFlags::from_bits_retain(rbits);
    let must = libc::RESOLVE_IN_ROOT | libc::RESOLVE_NO_MAGICLINKS;
    if oneshot {
        let bits: i32 = kani::any();
        let res = open(borrow_fd(root), p, rflags, OpenFlags::from_bits_retain(bits));
        let ok = res.is_ok();
        std::mem::forget(res);
        let (n, c) = real_calls();
        assert!(ok && n == 1);
        assert!(c.kind == C_OPENAT2 && c.dirfd == root && bytes_eq(&c.name, c.name_len, &buf, len));
        assert!(c.resolve == must | rbits);
        assert!(c.flags == bits as u64 && c.mode == 0);
    } else {
        let nofollow: bool = kani::any();
        let res = resolve(borrow_fd(root), p, rflags, nofollow);
        let ok = res.is_ok();
        std::mem::forget(res);
        let (n, c) = real_calls();
        assert!(ok && n == 1);
        assert!(c.kind == C_OPENAT2 && c.dirfd == root && bytes_eq(&c.name, c.name_len, &buf, len));
        assert!(c.resolve == must | rbits);
        let want = if nofollow { libc::O_PATH | libc::O_NOFOLLOW } else { libc::O_PATH };
        assert!(c.flags == want as u64 && c.mode == 0);
    }
    kani::cover!(true, "reached");
}

macro_rules! o2_h {
    ($name:ident, $body:expr) => {
        #[kani::proof]
        #[kani::unwind(7)]
        #[kani::stub(crate::syscalls::openat2, k_openat2)]
        #[kani::stub(alloc::fmt::format, k_format)]
        fn $name() {
            $body;
        }
    };
}
o2_h!(openat2_open_mask, mask_body(true));
o2_h!(openat2_resolve_mask, mask_body(false));

fn errno_body(errno: i32) {
    install_close_model();
    reset(3);
    let root = given_fd(true);
    {
        let k = kmut();
        k.plan[0] = P_OK; // probe
        k.fixed_errno = errno;
        let mut i = 1;
        while i < MAX_CALLS {
            k.plan[i] = P_FAIL;
            i += 1;
        }
    }
    let res = resolve(borrow_fd(root), Path::new("a"), ResolverFlags::empty(), false);
    let kind = match &res {
        Ok(_) => None,
        Err(e) => Some(cheap_kind(e)),
    };
    std::mem::forget(res);
    // the log is smaller than 17 entries: use the total call counter (1 probe + n)
    let n = kref().ncalls_total - 1;
    if errno == libc::EAGAIN {
        // bounded retry, then a hard safety violation -- never a partial result
        assert!(n == 16);
        assert!(kind == Some(ErrorKind::SafetyViolation));
    } else if errno == libc::ENOSYS {
        assert!(n == 1 && kind == Some(ErrorKind::NotSupported));
    } else {
        assert!(n == 1 && kind == Some(ErrorKind::OsError(Some(errno))));
    }
    assert!(kref().n_open() == 1);
    kani::cover!(true, "reached");
}

macro_rules! o2e_h {
    ($name:ident, $errno:expr, $unwind:expr) => {
        #[kani::proof]
        #[kani::unwind($unwind)]
        #[kani::stub(crate::syscalls::openat2, k_openat2)]
        #[kani::stub(alloc::fmt::format, k_format)]
        fn $name() {
            errno_body($errno);
        }
    };
}
o2e_h!(openat2_resolve_eagain16, libc::EAGAIN, 18);
o2e_h!(openat2_resolve_enosys, libc::ENOSYS, 7);
o2e_h!(openat2_resolve_emfile, libc::EMFILE, 7);
