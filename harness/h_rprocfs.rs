//! child module of `crate::resolvers::procfs`
//!   rprocfs_flag_refusal_* : ProcfsResolver::resolve refuses O_CREAT / O_EXCL / O_TMPFILE
//!                            before any syscall, for every flag word, both variants (C07)
//!   rprocfs_openat2_mask   : openat2_resolve always confines with
//!                            RESOLVE_BENEATH|NO_XDEV|NO_MAGICLINKS (C05)
#![allow(dead_code, static_mut_refs, clippy::all, unused_imports)]

use super::*;
use crate::error::verif_h_error::cheap_kind;
use crate::error::ErrorKind;
use crate::verif_kani::bounds::PATH_L;
use crate::verif_kani::kernel::*;
use crate::verif_kani::stubs::*;

use std::os::unix::io::AsRawFd;
use std::ffi::OsStr;

/// recording stub for the emulated walk (its own behaviour: O7.4)
pub(crate) fn k_opath_resolve<Fd: AsFd, P: AsRef<Path>>(
    root: Fd,
    path: P,
    oflags: OpenFlags,
    rflags: ResolverFlags,
) -> Result<OwnedFd, Error> {
    let raw = root.as_fd().as_raw_fd();
    let (name, name_len) = copy_name(path.as_ref());
    let k = kmut();
    let mut c = NO_CALL;
    c.kind = C_PROC_RESOLVE;
    c.dirfd = raw;
    c.name = name;
    c.name_len = name_len;
    c.flags = oflags.bits() as u32 as u64;
    c.resolve = rflags.bits();
    if k.fails() {
        c.errno = any_errno();
        k.push(c);
        Err(any_error())
    } else {
        let fd = k.new_fd(O_PROC_RESOLVER, raw, false, c.flags);
        c.ok = true;
        c.ret_fd = fd;
        k.push(c);
        Ok(owned_fd(fd))
    }
}

fn is_creation(bits: i32) -> bool {
    bits & (libc::O_CREAT | libc::O_EXCL) != 0 || bits & libc::O_TMPFILE == libc::O_TMPFILE
}

fn flag_refusal_body(openat2: bool, creation: bool) {
    install_close_model();
    reset(3);
    let root = given_fd(false);
    let bits: i32 = kani::any();
    kani::assume(is_creation(bits) == creation);
    let rbits: u64 = kani::any();
    let buf: [u8; PATH_L] = kani::any();
    let len: usize = kani::any();
    kani::assume(len <= PATH_L);
    let p = Path::new(OsStr::from_bytes(&buf[..len]));
    let r = if openat2 { ProcfsResolver::Openat2 } else { ProcfsResolver::RestrictedOpath };
    let res = r.resolve(borrow_fd(root), p, OpenFlags::from_bits_retain(bits), ResolverFlags::from_bits_retain(rbits));
    let (ok, kind) = match &res {
        Ok(_) => (true, None),
        Err(e) => (false, Some(cheap_kind(e))),
    };
    std::mem::forget(res);
    let k = kref();
    if creation {
        assert!(!ok && kind == Some(ErrorKind::InvalidArgument), "creation flags must be refused");
        assert!(k.ncalls == 0, "creation flags must be refused before any lookup");
    } else {
        // dispatched exactly once to the variant's implementation, arguments verbatim
        let mut n = 0;
        let mut i = 0;
        while i < MAX_CALLS {
            if i < k.ncalls {
                let c = k.log[i];
                let probe = c.kind == C_OPENAT2 && c.dirfd == libc::AT_FDCWD;
                if !probe {
                    n += 1;
                    assert!(c.dirfd == root);
                    assert!(bytes_eq(&c.name, c.name_len, &buf, len));
                    if openat2 {
                        assert!(c.kind == C_OPENAT2);
                        assert!(c.flags == bits as u64);
                        let must = libc::RESOLVE_BENEATH | libc::RESOLVE_NO_XDEV | libc::RESOLVE_NO_MAGICLINKS;
                        assert!(c.resolve == must | rbits);
                        assert!(c.mode == 0);
                    } else {
                        assert!(c.kind == C_PROC_RESOLVE);
                        assert!(c.flags == bits as u32 as u64 && c.resolve == rbits);
                    }
                }
            }
            i += 1;
        }
        assert!(n <= 1);
        if ok {
            assert!(n == 1);
        }
    }
    kani::cover!(ok, "resolved");
    kani::cover!(!ok && k.ncalls == 0, "refused without a syscall");
    kani::cover!(!ok && k.ncalls > 0, "lookup failed");
}

macro_rules! fr_h {
    ($name:ident, $o2:expr, $cr:expr) => {
        #[kani::proof]
        #[kani::unwind(7)]
        #[kani::stub(crate::syscalls::openat2, k_openat2)]
        #[kani::stub(crate::resolvers::procfs::opath_resolve, k_opath_resolve)]
        #[kani::stub(alloc::fmt::format, k_format)]
        fn $name() {
            flag_refusal_body($o2, $cr);
        }
    };
}
fr_h!(rprocfs_openat2_creation_refused, true, true);
fr_h!(rprocfs_opath_creation_refused, false, true);
fr_h!(rprocfs_openat2_dispatch_and_mask, true, false);
fr_h!(rprocfs_opath_dispatch, false, false);
