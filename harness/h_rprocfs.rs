//! child module of `crate::resolvers::procfs`
//!   rprocfs_flag_refusal_* : ProcfsResolver::resolve refuses O_CREAT / O_EXCL / O_TMPFILE
//!                            before any syscall, for every flag word, both variants (C07)
//!   rprocfs_openat2_mask   : openat2_resolve always confines with
//!                            RESOLVE_BENEATH|NO_XDEV|NO_MAGICLINKS (C05)
#![allow(dead_code, static_mut_refs, clippy::all, unused_imports)]

use super::*;
use crate::error::verif_h_error::cheap_kind;
use crate::error::ErrorKind;
use crate::verif_kani::bounds::PATH_L;
use crate::verif_kani::kernel::*;
use crate::verif_kani::stubs::*;

use std::os::unix::io::AsRawFd;
use std::ffi::OsStr;

/// recording stub for the emulated walk (its own behaviour: O7.4)
pub(crate) fn k_opath_resolve<Fd: AsFd, P: AsRef<Path>>(
    root: Fd,
    path: P,
    oflags: OpenFlags,
    rflags: ResolverFlags,
) -> Result<OwnedFd, Error> {
    let raw = root.as_fd().as_raw_fd();
    let (name, name_len) = copy_name(path.as_ref());
    let k = kmut();
    let mut c = NO_CALL;
    c.kind = C_PROC_RESOLVE;
    c.dirfd = raw;
    c.name = name;
    c.name_len = name_len;
    c.flags = oflags.bits() as u32 as u64;
    c.resolve = rflags.bits();
    if k.fails() {
        c.errno = any_errno();
        k.push(c);
        Err(any_error())
    } else {
        let fd = k.new_fd(O_PROC_RESOLVER, raw, false, c.flags);
        c.ok = true;
        c.ret_fd = fd;
        k.push(c);
        Ok(owned_fd(fd))
    }
}

fn is_creation(bits: i32) -> bool {
    bits & (libc::O_CREAT | libc::O_EXCL) != 0 || bits & libc::O_TMPFILE == libc::O_TMPFILE
}

fn flag_refusal_body(openat2: bool, creation: bool) {
    install_close_model();
    reset(3);
    let root = given_fd(false);
    let bits: i32 = kani::any();
    kani::assume(is_creation(bits) == creation);
    let rbits: u64 = kani::any();
    let buf: [u8; PATH_L] = kani::any();
    let len: usize = kani::any();
    kani::assume(len <= PATH_L);
    let p = Path::new(OsStr::from_bytes(&buf[..len]));
    let r = if openat2 { ProcfsResolver::Openat2 } else { ProcfsResolver::RestrictedOpath };
    let res = r.resolve(borrow_fd(root), p, OpenFlags::from_bits_retain(bits), ResolverFlags::from_bits_retain(rbits));
    let (ok, kind) = match &res {
        Ok(_) => (true, None),
        Err(e) => (false, Some(cheap_kind(e))),
    };
    std::mem::forget(res);
    let k = kref();
    if creation {
        assert!(!ok && kind == Some(ErrorKind::InvalidArgument), "creation flags must be refused");
        assert!(k.ncalls == 0, "creation flags must be refused before any lookup");
    } else {
        // dispatched exactly once to the variant's implementation, arguments verbatim
        let mut n = 0;
        let mut i = 0;
        while i < MAX_CALLS {
            if i < k.ncalls {
                let c = k.log[i];
                let probe = c.kind == C_OPENAT2 && c.dirfd == libc::AT_FDCWD;
                if !probe {
                    n += 1;
                    assert!(c.dirfd == root);
                    assert!(bytes_eq(&c.name, c.name_len, &buf, len));
                    if openat2 {
                        assert!(c.kind == C_OPENAT2);
                        assert!(c.flags == bits as u64);
                        let must = libc::RESOLVE_BENEATH | libc::RESOLVE_NO_XDEV | libc::RESOLVE_NO_MAGICLINKS;
                        assert!(c.resolve == must | rbits);
                        assert!(c.mode == 0);
                    } else {
                        assert!(c.kind == C_PROC_RESOLVE);
                        assert!(c.flags == bits as u32 as u64 && c.resolve == rbits);
                    }
                }
            }
            i += 1;
        }
        assert!(n <= 1);
        if ok {
            assert!(n == 1);
        }
    }
    kani::cover!(ok, "resolved");
    kani::cover!(!ok && k.ncalls == 0, "refused without a syscall");
    kani::cover!(!ok && k.ncalls > 0, "lookup failed");
}

macro_rules! fr_h {
    ($name:ident, $o2:expr, $cr:expr) => {
        #[kani::proof]
        #[kani::unwind(18)]
        #[kani::stub(crate::syscalls::openat2, k_openat2)]
        #[kani::stub(crate::resolvers::procfs::opath_resolve, k_opath_resolve)]
        #[kani::stub(alloc::fmt::format, k_format)]
        fn $name() {
            flag_refusal_body($o2, $cr);
        }
    };
}
fr_h!(rprocfs_openat2_creation_refused, true, true);
fr_h!(rprocfs_opath_creation_refused, false, true);
fr_h!(rprocfs_openat2_dispatch_and_mask, true, false);
fr_h!(rprocfs_opath_dispatch, false, false);

// ---------------------------------------------------------------------------
// O7.4: the emulated procfs walk itself (opath_resolve), small bounds.
//   * '..' => EXDEV before anything is opened for it
//   * absolute link body => ELOOP
//   * every component is opened O_PATH|O_NOFOLLOW relative to the previous descriptor
//   * every descriptor obtained during the walk has its mount id queried (statx on the
//     descriptor itself) BEFORE it is used as a directory, read as a link, or returned
//   * at most MAX link traversals; descriptors balanced

/// link bodies: a concrete set indexed by a symbolic choice
pub(crate) fn k_readlinkat_body<Fd: AsFd, P: AsRef<Path>>(dirfd: Fd, _path: P) -> Result<std::path::PathBuf, crate::syscalls::Error> {
    let raw = dirfd.as_fd().as_raw_fd();
    let k = kmut();
    k.touch(raw);
    let mut c = NO_CALL;
    c.kind = C_READLINKAT;
    c.dirfd = raw;
    if k.fails() {
        c.errno = any_errno();
        k.push(c);
        return Err(sys_err(raw, c.errno));
    }
    let sel: u8 = kani::any();
    c.ok = true;
    c.flags = sel as u64;
    k.push(c);
    Ok(std::path::PathBuf::from(match sel {
        0 => "y",
        1 => "/y",
        2 => "../y",
        _ => "..",
    }))
}

fn statx_before(k: &Kernel, upto: usize, fd: i32) -> bool {
    let mut seen = false;
    let mut i = 0;
    while i < MAX_CALLS {
        if i < upto && i < k.ncalls && k.log[i].kind == C_STATX && k.log[i].dirfd == fd && k.log[i].name_len == 0 {
            seen = true;
        }
        i += 1;
    }
    seen
}

fn walk_body(is_symlink: bool) {
    walk_body_t(is_symlink, false)
}

fn walk_body_t(is_symlink: bool, trailing_slash: bool) {
    install_close_model();
    reset(3);
    let root = given_fd(false);
    // one component, symbolic bytes, no '/' (optionally followed by one '/')
    let mut buf: [u8; PATH_L] = kani::any();
    let mut len: usize = kani::any();
    kani::assume(len >= 1 && len <= PATH_L);
    if trailing_slash {
        kani::assume(len <= PATH_L - 1);
    }
    let mut i = 0;
    while i < PATH_L {
        if i < len {
            kani::assume(buf[i] != b'/');
        }
        i += 1;
    }
    let comp_len = len;
    if trailing_slash {
        buf[len] = b'/';
        len += 1;
    }
    let p = Path::new(OsStr::from_bytes(&buf[..len]));
    let bits: i32 = kani::any();
    kani::assume(!is_creation(bits));
    // shape: is the (first) component a symlink?  everything else symbolic
    crate::verif_kani::kernel::scratch_set(if is_symlink { 1 } else { 2 }, 0, 0, 0);
    let res = opath_resolve(borrow_fd(root), p, OpenFlags::from_bits_retain(bits), ResolverFlags::empty());
    let (ok, retfd, kind) = match &res {
        Ok(f) => (true, f.as_raw_fd(), None),
        Err(e) => (false, -1, Some(cheap_kind(e))),
    };
    std::mem::forget(res);
    let k = kref();
    assert!(!k.any_violation());
    let dotdot = comp_len == 2 && buf[0] == b'.' && buf[1] == b'.';
    if trailing_slash && !dotdot {
        // "x/" is not "x": if the walk got past x it must also have looked up the empty
        // trailing component (as "."), so that a non-directory x fails like the kernel
        let mut last_open = NO_CALL;
        let mut nopen = 0;
        let mut q = 0;
        while q < MAX_CALLS {
            if q < k.ncalls && k.log[q].kind == C_OPENAT {
                nopen += 1;
                last_open = k.log[q];
            }
            q += 1;
        }
        if ok {
            assert!(nopen >= 2, "trailing slash ignored");
            assert!(last_open.name_len == 1 && last_open.name[0] == b'.', "trailing slash ignored");
        }
    }
    let mut j = 0;
    while j < MAX_CALLS {
        if j < k.ncalls {
            let c = k.log[j];
            if c.kind == C_OPENAT {
                // never follows, never opens '..'
                assert!(c.flags & libc::O_NOFOLLOW as u64 != 0);
                assert!(!(c.name_len == 2 && c.name[0] == b'.' && c.name[1] == b'.'), "walked into '..'");
                assert!(single_component(&c.name, c.name_len));
            }
            // any descriptor the walk itself opened must have been mount-checked
            // before it is used for anything else
            if (c.kind == C_OPENAT || c.kind == C_READLINKAT || c.kind == C_FSTATAT) && c.dirfd != root {
                let e = k.ent(c.dirfd).unwrap();
                if e.origin == O_OPENED && e.parent != -1 && k.ent(e.parent).is_some() && k.fds[k.idx(c.dirfd).unwrap()].open_flags & libc::O_PATH as u64 != 0 {
                    if !is_dup_of_root(k, c.dirfd, root) {
                        assert!(statx_before(k, j, c.dirfd), "descriptor used before its mount id was checked");
                    }
                }
            }
        }
        j += 1;
    }
    if dotdot {
        assert!(!ok && kind == Some(ErrorKind::OsError(Some(libc::EXDEV))));
        assert!(k.count(C_OPENAT) == 0);
    }
    if ok {
        if !is_dup_of_root(k, retfd, root) {
            assert!(k.ent(retfd).unwrap().statx_seen, "returned descriptor never mount-checked");
        }
    }
    // absolute link body => ELOOP
    let mut r = 0;
    while r < MAX_CALLS {
        if r < k.ncalls && k.log[r].kind == C_READLINKAT && k.log[r].ok && k.log[r].flags == 1 {
            assert!(!ok && kind == Some(ErrorKind::OsError(Some(libc::ELOOP))));
        }
        r += 1;
    }
    assert!(k.n_open() == 1 + if ok { 1 } else { 0 });
    kani::cover!(ok, "resolved");
    kani::cover!(!ok && kind == Some(ErrorKind::OsError(Some(libc::EXDEV))), "EXDEV");
    kani::cover!(!ok && kind == Some(ErrorKind::OsError(Some(libc::ELOOP))), "ELOOP");
    kani::cover!(k.count(C_READLINKAT) >= 1, "link body read");
}

fn is_dup_of_root(k: &Kernel, fd: i32, root: i32) -> bool {
    // the starting point is a dup of the root handle (same object as the verified root)
    let mut i = 0;
    let mut d = false;
    while i < MAX_CALLS {
        if i < k.ncalls && k.log[i].kind == C_DUP && k.log[i].dirfd == root && k.log[i].ret_fd == fd {
            d = true;
        }
        i += 1;
    }
    d
}

/// metadata stub variant whose file type follows the scenario for descriptors
/// opened by the walk: first opened component symlink / not symlink, later ones arbitrary
pub(crate) fn k_metadata_walk<Fd: AsFd>(this: &Fd) -> Result<crate::utils::Metadata, Error> {
    let raw = this.as_fd().as_raw_fd();
    let scen = crate::verif_kani::kernel::scratch_get().0;
    {
        let k = kmut();
        if let Some(i) = k.idx(raw) {
            // fds: [0]=root, [1]=dup of root, [2]=first component (O_PATH), [3]=maybe reopen...
            if i == 2 {
                if scen == 1 {
                    k.fds[i].st_mode = (k.fds[i].st_mode & !libc::S_IFMT) | libc::S_IFLNK;
                } else {
                    kani::assume(k.fds[i].st_mode & libc::S_IFMT != libc::S_IFLNK);
                }
            }
        }
    }
    crate::utils::verif_h_fd::k_metadata(this)
}

macro_rules! walk_h {
    ($name:ident, $sym:expr) => {
        #[kani::proof]
        #[kani::unwind(18)]
        #[kani::stub(crate::syscalls::openat_follow, k_openat_follow)]
        #[kani::stub(crate::syscalls::statx, k_statx)]
        #[kani::stub(crate::syscalls::readlinkat, k_readlinkat_body)]
        #[kani::stub(<std::os::unix::io::BorrowedFd<'static> as crate::utils::FdExt>::metadata, k_metadata_walk)]
        #[kani::stub(std::os::fd::BorrowedFd::try_clone_to_owned, DupStub::k_try_clone_to_owned)]
        #[kani::stub(mc::memchr::memchr, k_memchr)]
        #[kani::stub(mc::memchr::memrchr, k_memrchr)]
        #[kani::stub(alloc::fmt::format, k_format)]
        fn $name() {
            walk_body($sym);
        }
    };
}
use ::memchr as mc;
walk_h!(rprocfs_walk_one_component_plain, false);

#[kani::proof]
#[kani::unwind(18)]
#[kani::stub(crate::syscalls::openat_follow, k_openat_follow)]
#[kani::stub(crate::syscalls::statx, k_statx)]
#[kani::stub(crate::syscalls::readlinkat, k_readlinkat_body)]
#[kani::stub(<std::os::unix::io::BorrowedFd<'static> as crate::utils::FdExt>::metadata, k_metadata_walk)]
#[kani::stub(std::os::fd::BorrowedFd::try_clone_to_owned, DupStub::k_try_clone_to_owned)]
#[kani::stub(mc::memchr::memchr, k_memchr)]
#[kani::stub(mc::memchr::memrchr, k_memrchr)]
#[kani::stub(alloc::fmt::format, k_format)]
fn rprocfs_walk_trailing_slash() {
    walk_body_t(false, true);
}
walk_h!(rprocfs_walk_one_component_symlink, true);
