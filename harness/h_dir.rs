//! child module of `crate::utils::dir`
//!   dir_remove_all_top : utils::remove_all(dirfd, name) for every name <= L bytes and an
//!                        arbitrary kernel (directory listing stubbed to fail):
//!                        refused names never reach the kernel, call sequence, ENOENT
//!                        tolerance, O_NOFOLLOW|O_DIRECTORY scan open, fd balance
#![allow(dead_code, static_mut_refs, clippy::all, unused_imports)]

use super::*;
use crate::error::verif_h_error::cheap_kind;
use crate::error::ErrorKind;
use crate::verif_kani::bounds::PATH_L;
use crate::verif_kani::kernel::*;
use crate::verif_kani::stubs::*;
use ::memchr as mc;
use ::rustix as rx;

use std::os::unix::io::AsRawFd;

/// `rustix::fs::Dir::read_from`: a `Dir` cannot be built by a model, so the
/// listing always fails, with an arbitrary errno (ENOENT included).
pub(crate) fn k_dir_read_from<Fd: AsFd>(fd: Fd) -> rx::io::Result<Dir> {
    let raw = fd.as_fd().as_raw_fd();
    let k = kmut();
    k.touch(raw);
    let mut c = NO_CALL;
    c.kind = C_READDIR;
    c.dirfd = raw;
    c.errno = any_errno();
    k.push(c);
    Err(rx::io::Errno::from_raw_os_error(c.errno))
}

/// for scenarios in which the directory listing must not be reached at all (the scan open
/// fails): reaching it is a failure, and nothing behind it is explored.  (With the ordinary
/// stub symex cannot fold the niche discriminant of `io::Result<Dir>` and explores the `Ok`
/// arm on garbage: `Dir::read`, the child loop and the recursive `remove_all` instantiation,
/// nested to the unwind bound -- that, not the error handling, exhausted 30 GB.)
pub(crate) fn k_dir_read_from_unreachable<Fd: AsFd>(_fd: Fd) -> rx::io::Result<Dir> {
    assert!(false, "directory listing reached although the scan open failed");
    kani::assume(false);
    Err(rx::io::Errno::from_raw_os_error(libc::EIO))
}

fn refused(name: &[u8]) -> bool {
    let mut slash = false;
    let mut i = 0;
    while i < PATH_L {
        if i < name.len() && name[i] == b'/' {
            slash = true;
        }
        i += 1;
    }
    slash || name.is_empty() || name == b"." || name == b".."
}

fn remove_all_body(plan: [u8; 3]) {
    remove_all_body_e(plan, 0)
}

fn remove_all_body_e(plan: [u8; 3], fixed_errno: i32) {
    install_close_model();
    reset(3);
    kmut().fixed_errno = fixed_errno;
    let d = given_fd(true);
    {
        let k = kmut();
        k.plan[0] = plan[0];
        k.plan[1] = plan[1];
        k.plan[2] = plan[2];
    }
    let buf: [u8; PATH_L] = kani::any();
    let len: usize = kani::any();
    kani::assume(len <= PATH_L);
    let nameb = &buf[..len];
    let name = Path::new(OsStr::from_bytes(nameb));
    let res = remove_all(borrow_fd(d), name);
    let (ok, kind) = match &res {
        Ok(()) => (true, None),
        Err(e) => (false, Some(cheap_kind(e))),
    };
    std::mem::forget(res);
    let k = kref();
    assert!(!k.any_violation());
    let has_slash = {
        let mut s = false;
        let mut i = 0;
        while i < PATH_L {
            if i < len && buf[i] == b'/' {
                s = true;
            }
            i += 1;
        }
        s
    };
    if refused(nameb) {
        // '.', '..', '' and anything containing '/' never reach the kernel
        assert!(k.ncalls == 0, "refused name reached the kernel");
        assert!(!ok, "refused name reported as removed");
        if has_slash {
            assert!(kind == Some(ErrorKind::SafetyViolation));
        }
    } else {
        assert!(k.ncalls >= 1);
        // every call names exactly the given single component, relative to the
        // given directory or to the scanned sub-directory itself
        let mut subdir = -1;
        let mut i = 0;
        while i < MAX_CALLS {
            if i < k.ncalls {
                let c = k.log[i];
                if c.kind == C_READDIR {
                    assert!(subdir != -1 && c.dirfd == subdir);
                } else {
                    assert!(c.kind == C_UNLINKAT || c.kind == C_OPENAT);
                    assert!(c.dirfd == d);
                    assert!(bytes_eq(&c.name, c.name_len, nameb, len));
                    if c.kind == C_OPENAT {
                        // scan open never follows a link and only opens directories
                        // (seen at the openat_follow boundary; O_CLOEXEC|O_NOCTTY are added below it: O5.1b)
                        let want = (libc::O_DIRECTORY | libc::O_NOFOLLOW) as u64;
                        assert!(c.flags & want == want);
                        assert!(c.flags & (libc::O_CREAT | libc::O_TRUNC | libc::O_TMPFILE) as u64 & !(libc::O_DIRECTORY as u64) == 0);
                        if c.ok {
                            subdir = c.ret_fd;
                        }
                    }
                }
            }
            i += 1;
        }
        let c0 = k.log[0];
        assert!(c0.kind == C_UNLINKAT && c0.flags == 0);
        if c0.ok {
            assert!(ok && k.ncalls == 1);
        } else {
            let c1 = k.log[1];
            assert!(k.ncalls >= 2 && c1.kind == C_UNLINKAT && c1.flags == libc::AT_REMOVEDIR as u64);
            if c1.ok {
                assert!(ok && k.ncalls == 2);
            } else {
                let e = if c1.errno == libc::ENOTDIR { c0.errno } else { c1.errno };
                if e == libc::ENOENT {
                    assert!(ok && k.ncalls == 2);
                } else {
                    let c2 = k.log[2];
                    assert!(k.ncalls >= 3 && c2.kind == C_OPENAT);
                    if !c2.ok {
                        assert!(k.ncalls == 3);
                        if c2.errno == libc::ENOENT {
                            assert!(ok);
                        } else {
                            assert!(kind == Some(ErrorKind::OsError(Some(c2.errno))));
                        }
                    } else {
                        let c3 = k.log[3];
                        assert!(k.ncalls >= 4 && c3.kind == C_READDIR);
                        if c3.errno != libc::ENOENT {
                            assert!(k.ncalls == 4 && kind == Some(ErrorKind::OsError(Some(c3.errno))));
                        } else {
                            // listing says "gone": one more unlink/rmdir attempt
                            assert!(k.ncalls >= 5 && k.log[4].kind == C_UNLINKAT && k.log[4].flags == 0);
                        }
                    }
                }
            }
        }
    }
    // C11: only the caller's descriptor is open afterwards
    assert!(k.n_open() == 1 && k.ent(d).unwrap().open);
    kani::cover!(ok && k.ncalls == 1, "unlinked");
    kani::cover!(ok && k.ncalls == 2, "rmdir-ed or already gone");
    kani::cover!(!ok && k.ncalls == 0, "refused");
    kani::cover!(k.ncalls >= 4, "scanned");
    kani::cover!(!ok && k.ncalls == 3, "scan open failed");
}

macro_rules! ra_h {
    ($name:ident, $plan:expr) => {
        #[kani::proof]
        #[kani::unwind(8)]
        #[kani::stub(crate::syscalls::unlinkat, k_unlinkat)]
        #[kani::stub(crate::syscalls::openat_follow, k_openat_follow)]
        #[kani::stub(rx::fs::Dir::read_from, k_dir_read_from)]
        #[kani::stub(alloc::fmt::format, k_format)]
        fn $name() {
            remove_all_body($plan);
        }
    };
}

// concrete fault plans for the first three fallible calls (unlink, rmdir, open);
// P_ANY = decided by the solver
ra_h!(dir_remove_all_any, [P_ANY, P_ANY, P_ANY]);
ra_h!(dir_remove_all_unlink_ok, [P_OK, P_ANY, P_ANY]);
ra_h!(dir_remove_all_rmdir_ok, [P_FAIL, P_OK, P_ANY]);
ra_h!(dir_remove_all_open_fail, [P_FAIL, P_FAIL, P_FAIL]);
ra_h!(dir_remove_all_scan, [P_FAIL, P_FAIL, P_OK]);

// every failing call answers ENOTEMPTY (the non-empty-directory case): keeps the
// error values concrete so the scan path fits the quick tier
#[kani::proof]
#[kani::unwind(8)]
#[kani::stub(crate::syscalls::unlinkat, k_unlinkat)]
#[kani::stub(crate::syscalls::openat_follow, k_openat_follow)]
#[kani::stub(rx::fs::Dir::read_from, k_dir_read_from)]
#[kani::stub(alloc::fmt::format, k_format)]
fn dir_remove_all_scan_enotempty() {
    remove_all_body_e([P_FAIL, P_FAIL, P_OK], libc::ENOTEMPTY);
}

// unlink, rmdir and the scan open all answer EACCES (unreadable directory): the
// error must surface -- success must never be reported for work that was not done
#[kani::proof]
#[kani::unwind(8)]
#[kani::stub(crate::syscalls::unlinkat, k_unlinkat)]
#[kani::stub(crate::syscalls::openat_follow, k_openat_follow)]
#[kani::stub(rx::fs::Dir::read_from, k_dir_read_from)]
#[kani::stub(alloc::fmt::format, k_format)]
fn dir_remove_all_open_eacces() {
    remove_all_body_e([P_FAIL, P_FAIL, P_FAIL], libc::EACCES);
}


// ---------------------------------------------------------------------------
// Decomposition of the slow path (both removals failed): `remove_inode` is decided on its
// own (`dir_remove_inode_contract`) and replaced by its contract in the scan harnesses —
// its body moves 19-variant `syscalls::Error` values by value through two closures, which
// together with the rest of remove_all exceeded 14 GB / 15 min in one query.

/// contract of `remove_inode(dirfd, name)`: Ok if unlink or rmdir succeeded, else an
/// OsError-class error carrying the reported errno
pub(crate) fn k_remove_inode<Fd: AsFd>(dirfd: Fd, name: &Path) -> Result<(), Error> {
    let raw = dirfd.as_fd().as_raw_fd();
    let (nm, nl) = copy_name(name);
    let k = kmut();
    k.touch(raw);
    let mut c = NO_CALL;
    c.kind = C_UNLINKAT;
    c.dirfd = raw;
    c.name = nm;
    c.name_len = nl;
    c.flags = 0xbeef; // "unlink-or-rmdir of (dirfd, name)"
    if k.fails() {
        c.errno = any_errno();
        k.push(c);
        Err(ErrorImpl::OsError {
            operation: "remove inode".into(),
            source: std::io::Error::from_raw_os_error(c.errno),
        }
        .into())
    } else {
        c.ok = true;
        k.push(c);
        Ok(())
    }
}

/// the real remove_inode against K
#[kani::proof]
#[kani::unwind(8)]
#[kani::stub(crate::syscalls::unlinkat, k_unlinkat)]
#[kani::stub(alloc::fmt::format, k_format)]
fn dir_remove_inode_contract() {
    install_close_model();
    reset(3);
    let d = given_fd(true);
    let res = remove_inode(borrow_fd(d), Path::new("n"));
    let (ok, kind) = match &res {
        Ok(()) => (true, None),
        Err(e) => (false, Some(cheap_kind(e))),
    };
    std::mem::forget(res);
    let k = kref();
    assert!(k.ncalls >= 1 && k.log[0].kind == C_UNLINKAT && k.log[0].flags == 0 && k.log[0].dirfd == d);
    if k.log[0].ok {
        assert!(ok && k.ncalls == 1);
    } else {
        assert!(k.ncalls == 2 && k.log[1].kind == C_UNLINKAT && k.log[1].flags == libc::AT_REMOVEDIR as u64 && k.log[1].dirfd == d);
        if k.log[1].ok {
            assert!(ok);
        } else {
            let e = if k.log[1].errno == libc::ENOTDIR { k.log[0].errno } else { k.log[1].errno };
            assert!(!ok && kind == Some(ErrorKind::OsError(Some(e))));
        }
    }
    kani::cover!(ok && k.ncalls == 1, "unlinked");
    kani::cover!(ok && k.ncalls == 2, "rmdir-ed");
    kani::cover!(!ok, "both failed");
}

fn scan_body(plan: [u8; 4], fixed_errno: i32) {
    scan_body_n(plan, fixed_errno, PATH_L)
}

fn scan_body_n(plan: [u8; 4], fixed_errno: i32, max_len: usize) {
    install_close_model();
    reset(3);
    let d = given_fd(true);
    {
        let k = kmut();
        let mut i = 0;
        while i < 4 {
            k.plan[i] = plan[i];
            i += 1;
        }
        k.fixed_errno = fixed_errno;
    }
    let buf: [u8; PATH_L] = kani::any();
    let len: usize = if max_len == 1 { 1 } else { kani::any() };
    kani::assume(len <= PATH_L && len <= max_len);
    let nameb = &buf[..len];
    kani::assume(!refused(nameb));
    let res = remove_all(borrow_fd(d), Path::new(OsStr::from_bytes(nameb)));
    let (ok, kind) = match &res {
        Ok(()) => (true, None),
        Err(e) => (false, Some(cheap_kind(e))),
    };
    std::mem::forget(res);
    let k = kref();
    assert!(!k.any_violation());
    // [0] remove_inode fails with an arbitrary errno: ENOENT => "already gone", Ok, nothing else;
    // ANY other errno => the slow path must be taken (no other errno means success)
    assert!(k.ncalls >= 1 && k.log[0].flags == 0xbeef && !k.log[0].ok);
    if k.log[0].errno == libc::ENOENT {
        assert!(ok && k.ncalls == 1);
        return;
    }
    assert!(k.ncalls >= 2, "a failed removal (errno other than ENOENT) was reported as success");
    let c = k.log[1];
    assert!(c.kind == C_OPENAT && c.dirfd == d && bytes_eq(&c.name, c.name_len, nameb, len));
    // the scan open never follows a link and only opens directories
    let want = (libc::O_DIRECTORY | libc::O_NOFOLLOW) as u64;
    assert!(c.flags & want == want, "directory scan open may follow a symlink");
    assert!(c.flags & (libc::O_CREAT | libc::O_TRUNC) as u64 == 0);
    if !c.ok {
        // a failing scan open is reported -- success only for "already gone"
        assert!(k.ncalls == 2);
        if c.errno == libc::ENOENT {
            assert!(ok);
        } else {
            assert!(!ok && kind == Some(ErrorKind::OsError(Some(c.errno))), "failed scan open reported as success");
        }
    } else {
        let r = k.log[2];
        assert!(k.ncalls >= 3 && r.kind == C_READDIR && r.dirfd == c.ret_fd);
        if r.errno != libc::ENOENT {
            assert!(k.ncalls == 3 && !ok && kind == Some(ErrorKind::OsError(Some(r.errno))));
        } else {
            // listing says "gone": one more removal attempt on the same (dir, name)
            assert!(k.ncalls == 4 && k.log[3].flags == 0xbeef && k.log[3].dirfd == d);
            assert!(bytes_eq(&k.log[3].name, k.log[3].name_len, nameb, len));
            assert!(ok == (k.log[3].ok || k.log[3].errno == libc::ENOENT));
        }
    }
    assert!(k.n_open() == 1 && k.ent(d).unwrap().open);
    kani::cover!(!ok && k.ncalls == 2, "scan open failed");
    kani::cover!(k.ncalls == 3, "listing failed");
    kani::cover!(k.ncalls == 4, "directory vanished while scanning");
}

macro_rules! scan_h {
    ($name:ident, $plan:expr, $errno:expr) => {
        #[kani::proof]
        #[kani::unwind(8)]
        #[kani::stub(crate::utils::dir::remove_inode, k_remove_inode)]
        #[kani::stub(crate::syscalls::openat_follow, k_openat_follow)]
        #[kani::stub(rx::fs::Dir::read_from, k_dir_read_from)]
        #[kani::stub(alloc::fmt::format, k_format)]
        fn $name() {
            scan_body($plan, $errno);
        }
    };
}
// removal failed with EACCES, the scan open fails with EACCES too (unreadable / undeletable entry)
#[kani::proof]
#[kani::unwind(8)]
#[kani::stub(crate::utils::dir::remove_inode, k_remove_inode)]
#[kani::stub(crate::syscalls::openat_follow, k_openat_follow)]
#[kani::stub(rx::fs::Dir::read_from, k_dir_read_from_unreachable)]
#[kani::stub(alloc::fmt::format, k_format)]
fn dir_scan_open_fails() {
    scan_body([P_FAIL, P_FAIL, P_ANY, P_ANY], libc::EACCES);
}
// removal failed with ENOTEMPTY, scan open succeeds, listing fails with an arbitrary errno
scan_h!(dir_scan_listing, [P_FAIL, P_OK, P_ANY, P_ANY], libc::ENOTEMPTY);


/// `ignore_enoent` for every errno and the other error classes: only ENOENT becomes Ok.
/// (Decided on its own because the slow-path harness pins the errno of the failed removal.)
#[kani::proof]
#[kani::unwind(8)]
#[kani::stub(alloc::fmt::format, k_format)]
fn dir_ignore_enoent_all_errnos() {
    let sel: u8 = kani::any();
    let errno = any_errno();
    let input: Result<(), Error> = if sel == 0 {
        Ok(())
    } else if sel == 1 {
        Err(ErrorImpl::OsError { operation: "x".into(), source: std::io::Error::from_raw_os_error(errno) }.into())
    } else if sel == 2 {
        Err(ErrorImpl::RawOsError { operation: "x".into(), source: sys_err(3, errno) }.into())
    } else if sel == 3 {
        Err(Error::from(ErrorImpl::RawOsError { operation: "x".into(), source: sys_err(3, errno) }).wrap("ctx"))
    } else {
        Err(ErrorImpl::SafetyViolation { description: "x".into() }.into())
    };
    let out = input.ignore_enoent();
    let ok = out.is_ok();
    std::mem::forget(out);
    let want = sel == 0 || ((sel == 1 || sel == 2 || sel == 3) && errno == libc::ENOENT);
    assert!(ok == want, "an error other than ENOENT was turned into success (or ENOENT was not tolerated)");
    kani::cover!(ok && sel == 2, "ENOENT tolerated");
    kani::cover!(!ok && sel == 1 && errno == libc::EBUSY, "EBUSY stays an error");
    kani::cover!(!ok && sel == 4, "other classes stay errors");
}


/// listing stub that checks the scan open that has just succeeded and then ENDS the path:
/// decides the arguments of the scan open without paying for anything behind it
pub(crate) fn k_dir_read_from_cut<Fd: AsFd>(fd: Fd) -> rx::io::Result<Dir> {
    let raw = fd.as_fd().as_raw_fd();
    let k = kref();
    let (nb, nl) = crate::verif_kani::kernel::tail_get();
    // log: [0] the failed removal (contract stub), [1] the scan open
    assert!(k.ncalls == 2 && k.log[0].flags == 0xbeef && !k.log[0].ok);
    let c = k.log[1];
    assert!(c.kind == C_OPENAT && c.ok && c.ret_fd == raw, "listing is not read from the descriptor of the scan open");
    assert!(c.dirfd == k.log[0].dirfd && bytes_eq(&c.name, c.name_len, &nb, nl), "scan open is not on (dir, name)");
    let want = (libc::O_DIRECTORY | libc::O_NOFOLLOW) as u64;
    assert!(c.flags & want == want, "directory scan open may follow a symlink");
    assert!(c.flags & (libc::O_CREAT | libc::O_TRUNC) as u64 == 0);
    kani::cover!(true, "scan open checked");
    kani::assume(false);
    Err(rx::io::Errno::from_raw_os_error(libc::EIO))
}

/// removal failed (EACCES: undeletable entry), the scan open SUCCEEDS: its arguments
#[kani::proof]
#[kani::unwind(8)]
#[kani::stub(crate::utils::dir::remove_inode, k_remove_inode)]
#[kani::stub(crate::syscalls::openat_follow, k_openat_follow)]
#[kani::stub(rx::fs::Dir::read_from, k_dir_read_from_cut)]
#[kani::stub(alloc::fmt::format, k_format)]
fn dir_scan_open_flags() {
    install_close_model();
    reset(3);
    let d = given_fd(true);
    {
        let k = kmut();
        k.plan[0] = P_FAIL;
        k.plan[1] = P_OK;
        k.fixed_errno = libc::EACCES;
    }
    let buf: [u8; PATH_L] = kani::any();
    let len: usize = kani::any();
    kani::assume(len <= PATH_L);
    let nameb = &buf[..len];
    kani::assume(!refused(nameb));
    crate::verif_kani::kernel::tail_set(&buf, len);
    let res = remove_all(borrow_fd(d), Path::new(OsStr::from_bytes(nameb)));
    std::mem::forget(res);
    // every path through the scan open ends in the listing stub; coming back here means the
    // slow path was not taken although the removal failed with an errno other than ENOENT
    assert!(false, "a failed removal did not lead to the directory scan");
}
