//! Single-entry Root operations (C03 / C05 / C10 / C11 / C14):
//! create (all kinds), create_file, remove_file/remove_dir, rename.
#![allow(dead_code, static_mut_refs, clippy::all, unused_imports)]

use super::bounds::PATH_L;
use super::kernel::*;
use super::stubs::*;
use crate::{
    error::{Error, ErrorKind},
    flags::{OpenFlags, RenameFlags},
    InodeType, RootRef,
};
use ::memchr as mc;

use std::{
    ffi::OsStr,
    fs::Permissions,
    os::unix::{
        ffi::OsStrExt,
        fs::PermissionsExt,
        io::{AsRawFd, BorrowedFd},
    },
    path::Path,
};

pub fn any_base() -> i32 {
    let b: i32 = kani::any();
    kani::assume(b >= 0 && b <= 1000);
    b
}

pub struct SymPath {
    pub buf: [u8; PATH_L],
    pub len: usize,
}
impl SymPath {
    pub fn any() -> Self {
        let buf: [u8; PATH_L] = kani::any();
        let len: usize = kani::any();
        kani::assume(len <= PATH_L);
        SymPath { buf, len }
    }
    pub fn bytes(&self) -> &[u8] {
        &self.buf[..self.len]
    }
    pub fn path(&self) -> &Path {
        Path::new(OsStr::from_bytes(&self.buf[..self.len]))
    }
}

/// What every single-entry operation must satisfy, whatever the kernel says.
///  * at most one mutating call, and it is `kind`
///  * its dirfd is the descriptor the resolver returned for the reference
///    parent, its name is the reference base
///  * resolver was asked exactly for the reference parent, following links
///  * no base (trailing slash / empty) => InvalidArgument and no mutating call
///  * Ok <=> the mutating call answered Ok
///  * descriptor table back to the initial state
fn check_single(p: &SymPath, kind: u8, res_is_ok: bool, res_kind: Option<ErrorKind>, rootfd: i32) -> Option<Call> {
    let r = ref_split(p.bytes());
    let k = unsafe { &K };
    assert!(!k.any_violation());
    // find the resolve call and the mutating call
    let mut resolve: Option<Call> = None;
    let mut mutating: Option<Call> = None;
    let mut nres = 0;
    let mut nmut = 0;
    let mut i = 0;
    while i < MAX_CALLS {
        if i < k.ncalls {
            let c = k.log[i];
            if c.kind == C_RESOLVE {
                nres += 1;
                resolve = Some(c);
            } else if c.kind == C_MKDIRAT
                || c.kind == C_MKNODAT
                || c.kind == C_UNLINKAT
                || c.kind == C_LINKAT
                || c.kind == C_SYMLINKAT
                || c.kind == C_RENAMEAT2
                || c.kind == C_OPENAT
            {
                nmut += 1;
                mutating = Some(c);
            }
        }
        i += 1;
    }
    assert!(nres <= 1);
    assert!(nmut <= 1);
    if let Some(rc) = resolve {
        assert!(rc.dirfd == rootfd);
        assert!(rc.flags == 0); // parent lookups follow trailing links
        assert!(name_is_ref_dir(&rc.name, rc.name_len, p.bytes(), &r));
    }
    match mutating {
        Some(mc_) => {
            assert!(mc_.kind == kind);
            let rc = resolve.unwrap();
            assert!(rc.ok);
            assert!(mc_.dirfd == rc.ret_fd);
            assert!(r.has_base);
            assert!(name_is_ref_base(&mc_.name, mc_.name_len, p.bytes(), &r));
            assert!(single_component(&mc_.name, mc_.name_len));
            assert!(res_is_ok == mc_.ok);
            if !mc_.ok {
                assert!(res_kind == Some(ErrorKind::OsError(Some(mc_.errno))));
            }
        }
        None => {
            assert!(!res_is_ok);
            if let Some(rc) = resolve {
                if rc.ok {
                    // parent resolved but nothing done: only legal reason is "no base"
                    assert!(!r.has_base);
                    assert!(res_kind == Some(ErrorKind::InvalidArgument));
                }
            }
        }
    }
    // C11: only the caller's root descriptor is open again
    assert!(k.n_open() == 1);
    assert!(k.ent(rootfd).unwrap().open);
    mutating
}

macro_rules! op_stubs {
    ($(#[$m:meta])* fn $name:ident() $body:block) => {
        #[kani::proof]
        #[kani::unwind(7)]
        #[kani::stub(crate::resolvers::Resolver::resolve, k_resolve)]
        #[kani::stub(crate::syscalls::openat_follow, k_openat_follow)]
        #[kani::stub(crate::syscalls::mkdirat, k_mkdirat)]
        #[kani::stub(crate::syscalls::mknodat, k_mknodat)]
        #[kani::stub(crate::syscalls::unlinkat, k_unlinkat)]
        #[kani::stub(crate::syscalls::linkat, k_linkat)]
        #[kani::stub(crate::syscalls::symlinkat, k_symlinkat)]
        #[kani::stub(crate::syscalls::renameat2, k_renameat2)]
        #[kani::stub(crate::syscalls::openat2, k_openat2)]
        #[kani::stub(mc::memchr::memchr, k_memchr)]
        #[kani::stub(mc::memchr::memrchr, k_memrchr)]
        #[kani::stub(alloc::fmt::format, k_format)]
        $(#[$m])*
        fn $name() $body
    };
}

fn setup() -> i32 {
    install_close_model();
    reset(any_base());
    given_fd(true)
}

op_stubs! {
fn op_create_file_kind() {
    let rootfd = setup();
    let root = RootRef::from_fd(unsafe { BorrowedFd::borrow_raw(rootfd) });
    unsafe { K.ncalls = 0 }; // ignore backend-detection traffic
    let p = SymPath::any();
    let mode: u32 = kani::any();
    let ty = InodeType::File(Permissions::from_mode(mode));
    let res = root.create(p.path(), &ty);
    let (ok, kind) = match &res {
        Ok(()) => (true, None),
        Err(e) => (false, Some(e.kind())),
    };
    std::mem::forget(res);
    std::mem::forget(ty);
    if let Some(c) = check_single(&p, C_MKNODAT, ok, kind, rootfd) {
        assert!(c.mode == libc::S_IFREG | (mode & !libc::S_IFMT));
        assert!(c.dev == 0);
    }
    kani::cover!(ok, "create succeeded");
    kani::cover!(!ok && unsafe { K.count(C_MKNODAT) } == 1, "mknodat failed");
    kani::cover!(kind == Some(ErrorKind::InvalidArgument), "trailing slash refused");
}
}
