//! child module of `crate::procfs`
#![allow(dead_code, static_mut_refs, clippy::all, unused_imports)]

use super::*;
use crate::error::verif_h_error::cheap_kind;
use crate::verif_kani::kernel::*;
use crate::verif_kani::stubs::*;

impl ProcfsHandle {
    /// a handle built directly from a model descriptor (no probing)
    pub(crate) fn verif_dummy(fd: i32) -> Self {
        ProcfsHandle {
            inner: owned_fd(fd),
            mnt_id: None,
            is_subset: false,
            resolver: ProcfsResolver::Openat2,
        }
    }
    pub(crate) fn verif_make(fd: i32, mnt_id: Option<u64>, is_subset: bool, openat2: bool) -> Self {
        ProcfsHandle {
            inner: owned_fd(fd),
            mnt_id,
            is_subset,
            resolver: if openat2 { ProcfsResolver::Openat2 } else { ProcfsResolver::RestrictedOpath },
        }
    }
}
