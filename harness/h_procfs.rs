//! child module of `crate::procfs`
#![allow(dead_code, static_mut_refs, clippy::all, unused_imports)]

use super::*;
use crate::error::verif_h_error::cheap_kind;
use crate::verif_kani::kernel::*;
use crate::verif_kani::stubs::*;

impl ProcfsHandle {
    /// a handle built directly from a model descriptor (no probing)
    pub(crate) fn verif_dummy(fd: i32) -> Self {
        ProcfsHandle {
            inner: owned_fd(fd),
            mnt_id: None,
            is_subset: false,
            resolver: ProcfsResolver::Openat2,
        }
    }
    pub(crate) fn verif_make(fd: i32, mnt_id: Option<u64>, is_subset: bool, openat2: bool) -> Self {
        ProcfsHandle {
            inner: owned_fd(fd),
            mnt_id,
            is_subset,
            resolver: if openat2 { ProcfsResolver::Openat2 } else { ProcfsResolver::RestrictedOpath },
        }
    }
}

use crate::error::ErrorKind;
use crate::verif_kani::bounds::PATH_L;
use std::os::unix::io::AsRawFd;
use std::os::unix::ffi::OsStrExt;

// ---------------------------------------------------------------------------
// contract stubs

/// `ProcfsResolver::resolve`: arbitrary descriptor or arbitrary error (ENOENT
/// included); the request is recorded.
pub(crate) fn k_proc_resolve<Fd: AsFd, P: AsRef<Path>>(
    _this: &ProcfsResolver,
    root: Fd,
    path: P,
    oflags: OpenFlags,
    rflags: ResolverFlags,
) -> Result<OwnedFd, Error> {
    let raw = root.as_fd().as_raw_fd();
    let (name, name_len) = copy_name(path.as_ref());
    let k = kmut();
    k.touch(raw);
    let mut c = NO_CALL;
    c.kind = C_PROC_RESOLVE;
    c.dirfd = raw;
    c.name = name;
    c.name_len = name_len;
    c.flags = oflags.bits() as u32 as u64;
    c.resolve = rflags.bits();
    if k.fails() {
        c.errno = any_errno();
        k.push(c);
        Err(ErrorImpl::OsError {
            operation: "stub".into(),
            source: IOError::from_raw_os_error(c.errno),
        }
        .into())
    } else {
        let fd = k.new_fd(O_PROC_RESOLVER, raw, false, c.flags);
        c.ok = true;
        c.ret_fd = fd;
        k.push(c);
        Ok(owned_fd(fd))
    }
}

/// `ProcfsBase::into_path`: some relative path (its own lookups are decided in
/// `procfs_into_path`).
pub(crate) fn k_into_path(_this: ProcfsBase, _proc_root: Option<BorrowedFd<'_>>) -> PathBuf {
    PathBuf::from("b")
}

/// `ProcfsHandle::new_unmasked`: counts how many retry handles one lookup creates.
pub(crate) fn k_new_unmasked() -> Result<ProcfsHandle, Error> {
    let n = crate::verif_kani::kernel::counter_inc(0);
    assert!(n <= 1, "more than one unmasked retry handle created during one lookup");
    let k = kmut();
    if k.fails() {
        Err(any_error())
    } else {
        let fd = k.new_fd(O_PRIVATE_PROC, -1, false, 0);
        let e = k.ent(fd).unwrap();
        let mnt = if e.mnt_mask & 0x5000 != 0 { Some(e.mnt_id) } else { None };
        // the new handle may itself be masked (unprivileged caller on a
        // hidepid/subset host ends up on the same host mount again)
        let sw = crate::verif_kani::kernel::scratch_get().0;
        let masked_again = if sw == 1 { false } else if sw == 2 { true } else { kani::any() };
        Ok(ProcfsHandle::verif_make(fd, mnt, masked_again, kani::any()))
    }
}

// ---------------------------------------------------------------------------
// O6.2 verify_same_mnt / verify_is_procfs

#[kani::proof]
#[kani::unwind(6)]
#[kani::stub(crate::syscalls::statx, k_statx)]
#[kani::stub(alloc::fmt::format, k_format)]
fn procfs_verify_same_mnt() {
    install_close_model();
    reset(3);
    let fd = given_fd(false);
    let root_mnt: Option<u64> = kani::any();
    let res = verify_same_mnt(root_mnt, borrow_fd(fd), "");
    let k = kref();
    assert!(k.ncalls == 1 && k.log[0].kind == C_STATX && k.log[0].dirfd == fd);
    let c = k.log[0];
    let e = k.ent(fd).unwrap();
    let reported = if e.mnt_mask & 0x5000 != 0 { Some(e.mnt_id) } else { None };
    match &res {
        Ok(()) => {
            // accepted only if the kernel's answer equals the handle's mount id
            // (or neither is known: pre-5.8 kernel)
            if c.ok {
                assert!(root_mnt == reported);
            } else {
                assert!((c.errno == libc::ENOSYS || c.errno == libc::EINVAL) && root_mnt.is_none());
            }
        }
        Err(err) => {
            let kd = cheap_kind(err);
            if c.ok {
                assert!(root_mnt != reported && kd == ErrorKind::OsError(Some(libc::EXDEV)));
            } else if c.errno == libc::ENOSYS || c.errno == libc::EINVAL {
                assert!(root_mnt.is_some() && kd == ErrorKind::OsError(Some(libc::EXDEV)));
            } else {
                assert!(kd == ErrorKind::OsError(Some(c.errno)));
            }
        }
    }
    kani::cover!(res.is_ok() && root_mnt.is_some(), "same mount");
    kani::cover!(res.is_ok() && root_mnt.is_none(), "mount ids unknown on both sides");
    kani::cover!(res.is_err() && c.ok, "different mount => EXDEV");
    kani::cover!(res.is_err() && !c.ok, "statx failure fails closed");
    std::mem::forget(res);
}

#[kani::proof]
#[kani::unwind(6)]
#[kani::stub(crate::syscalls::fstatfs, k_fstatfs)]
#[kani::stub(alloc::fmt::format, k_format)]
fn procfs_verify_is_procfs() {
    install_close_model();
    reset(3);
    let fd = given_fd(false);
    let res = verify_is_procfs(borrow_fd(fd));
    let k = kref();
    assert!(k.ncalls == 1 && k.log[0].kind == C_FSTATFS && k.log[0].dirfd == fd);
    let c = k.log[0];
    let e = k.ent(fd).unwrap();
    match &res {
        Ok(()) => { assert!(c.ok && e.f_type == 0x9fa0); }
        Err(err) => {
            let kd = cheap_kind(err);
            if c.ok {
                assert!(e.f_type != 0x9fa0 && kd == ErrorKind::OsError(Some(libc::EXDEV)));
            } else {
                assert!(kd == ErrorKind::OsError(Some(c.errno)));
            }
        }
    }
    kani::cover!(res.is_ok(), "procfs");
    kani::cover!(res.is_err() && c.ok, "other filesystem => EXDEV");
    kani::cover!(res.is_err() && !c.ok, "fstatfs failure fails closed");
    std::mem::forget(res);
}

// ---------------------------------------------------------------------------
// O6.3 try_from_fd

use ::rustix as rx;

pub(crate) fn k_accessat<P: rx::path::Arg, Fd: AsFd>(
    dirfd: Fd,
    _path: P,
    _access: Access,
    flags: AtFlags,
) -> rx::io::Result<()> {
    let raw = dirfd.as_fd().as_raw_fd();
    let k = kmut();
    k.touch(raw);
    let mut c = NO_CALL;
    c.kind = C_ACCESSAT;
    c.dirfd = raw;
    c.flags = flags.bits() as u64;
    if k.fails() {
        c.errno = any_errno();
        k.push(c);
        Err(rx::io::Errno::from_raw_os_error(c.errno))
    } else {
        c.ok = true;
        k.push(c);
        Ok(())
    }
}

fn try_from_fd_body(stat_plan: u8) {
    install_close_model();
    reset(3);
    let k = kmut();
    let fd = k.new_fd(O_OPENED, -1, false, 0); // owned by the call from now on
    k.plan[1] = stat_plan; // 2nd fallible call = fstat of the handle
    let res = ProcfsHandle::try_from_fd(owned_fd(fd));
    let k = kref();
    assert!(!k.any_violation());
    let e = *k.ent(fd).unwrap();
    match &res {
        Ok(h) => {
            // only a genuine procfs ROOT becomes a handle
            assert!(e.f_type == 0x9fa0 && e.statfs_seen);
            assert!(e.st_ino == 1);
            let reported = if e.mnt_mask & 0x5000 != 0 { Some(e.mnt_id) } else { None };
            if k.count(C_STATX) == 1 && statx_ok() {
                assert!(h.mnt_id == reported);
            } else {
                assert!(h.mnt_id.is_none());
            }
            // masked <=> one of the two probes failed
            assert!(k.count(C_ACCESSAT) >= 1);
            assert!(h.is_subset == access_failed());
            assert!(h.inner.as_raw_fd() == fd && e.open);
        }
        Err(_) => {
            // the descriptor handed over is closed again (C11)
            assert!(!e.open);
        }
    }
    assert!(k.n_open() == if res.is_ok() { 1 } else { 0 });
    kani::cover!(matches!(&res, Ok(h) if h.is_subset), "masked handle");
    kani::cover!(matches!(&res, Ok(h) if !h.is_subset), "unmasked handle");
    kani::cover!(res.is_err(), "refused");
    std::mem::forget(res);
}

fn statx_ok() -> bool {
    let k = kref();
    let mut i = 0;
    let mut ok = false;
    while i < MAX_CALLS {
        if i < k.ncalls && k.log[i].kind == C_STATX && k.log[i].ok {
            ok = true;
        }
        i += 1;
    }
    ok
}

fn access_failed() -> bool {
    let k = kref();
    let mut i = 0;
    let mut f = false;
    while i < MAX_CALLS {
        if i < k.ncalls && k.log[i].kind == C_ACCESSAT && !k.log[i].ok {
            f = true;
        }
        i += 1;
    }
    f
}

macro_rules! tff_h {
    ($name:ident, $plan:expr) => {
        #[kani::proof]
        #[kani::unwind(18)]
        #[kani::stub(crate::syscalls::fstatfs, k_fstatfs)]
        #[kani::stub(crate::syscalls::statx, k_statx)]
        #[kani::stub(crate::syscalls::openat2, k_openat2)]
        #[kani::stub(<std::os::unix::io::BorrowedFd<'static> as crate::utils::FdExt>::metadata, crate::utils::fd::verif_h_fd::k_metadata)]
        #[kani::stub(rx::fs::accessat, k_accessat)]
        #[kani::stub(alloc::fmt::format, k_format)]
        fn $name() {
            try_from_fd_body($plan);
        }
    };
}
tff_h!(procfs_try_from_fd, P_OK);
// C10: the fstat of the candidate /proc handle fails (EMFILE-class faults do
// not apply to fstat, but ENOMEM / EIO / seccomp do)
tff_h!(procfs_try_from_fd_fstat_fault, P_FAIL);

// ---------------------------------------------------------------------------
// O6.4 / O7.2 / C08: ProcfsHandle::open

fn sym_subpath() -> ([u8; PATH_L], usize) {
    let buf: [u8; PATH_L] = kani::any();
    let len: usize = kani::any();
    kani::assume(len <= PATH_L);
    (buf, len)
}

fn open_body(masked: bool) {
    open_body_s(masked, [P_ANY; 13], 0, 0, true)
}

/// plan: fault plan of the (up to) 13 fallible steps of one lookup with one retry:
///   [0] base lookup [1] statx(base) [2] fstatfs(base) [3] sub-path lookup [4] statx(fd) [5] fstatfs(fd)
///   [6] new_unmasked  [7..12] the same six on the retry handle
fn open_body_s(masked: bool, plan: [u8; 13], fixed_errno: i32, retry_handle: u64, sym_path: bool) {
    install_close_model();
    reset(3);
    crate::verif_kani::kernel::counter_reset();
    crate::verif_kani::kernel::scratch_set(retry_handle, 0, 0, 0);
    {
        let k = kmut();
        let mut i = 0;
        while i < 13 {
            k.plan[i] = plan[i];
            i += 1;
        }
        k.fixed_errno = fixed_errno;
    }
    let hfd = given_fd(false);
    let hmnt: Option<u64> = kani::any();
    let h = ProcfsHandle::verif_make(hfd, hmnt, masked, kani::any());
    // heavy scenarios keep the sub-path and base concrete: every symbolic branch
    // before an error-value assignment deepens the path guard CBMC carries
    let (buf, len) = if sym_path {
        sym_subpath()
    } else {
        let mut b = [0u8; PATH_L];
        b[0] = b'x';
        (b, 1)
    };
    let sub = Path::new(std::ffi::OsStr::from_bytes(&buf[..len]));
    let bits: i32 = kani::any();
    let base = if sym_path {
        let sel: u8 = kani::any();
        if sel == 0 { ProcfsBase::ProcRoot } else if sel == 1 { ProcfsBase::ProcSelf } else { ProcfsBase::ProcThreadSelf }
    } else {
        ProcfsBase::ProcSelf
    };
    let res = h.open(base, sub, OpenFlags::from_bits_retain(bits));
    let (ok, retfd, kind) = match &res {
        Ok(f) => (true, f.as_raw_fd(), None),
        Err(e) => (false, -1, Some(cheap_kind(e))),
    };
    std::mem::forget(res);
    std::mem::forget(h);
    let k = kref();
    assert!(!k.any_violation());
    // every lookup handed to the resolver is forced O_NOFOLLOW (C07) and
    // whatever comes back is checked before it is used or returned (C06)
    let mut i = 0;
    let mut nres = 0;
    while i < MAX_CALLS {
        if i < k.ncalls && k.log[i].kind == C_PROC_RESOLVE {
            let c = k.log[i];
            nres += 1;
            if nres % 2 == 0 {
                // the sub-path lookup (after the base lookup)
                assert!(c.flags & libc::O_NOFOLLOW as u64 != 0);
                assert!(c.flags == (bits | libc::O_NOFOLLOW) as u32 as u64);
                assert!(bytes_eq(&c.name, c.name_len, &buf, len));
            } else {
                assert!(c.flags == (libc::O_PATH | libc::O_DIRECTORY) as u32 as u64);
            }
            assert!(c.resolve == 0);
        }
        i += 1;
    }
    if ok {
        let e = k.ent(retfd).unwrap();
        assert!(e.origin == O_PROC_RESOLVER);
        // mount id compared and fs type checked on the returned descriptor itself
        assert!(e.statx_seen && e.statfs_seen);
        assert!(e.f_type == 0x9fa0);
        if !masked {
            if e.statx_ok {
                let reported = if e.mnt_mask & 0x5000 != 0 { Some(e.mnt_id) } else { None };
                assert!(reported == hmnt);
            } else {
                // statx unsupported (ENOSYS/EINVAL): only a handle that has no
                // mount id either (pre-5.8 kernel) accepts, on fstype alone
                assert!(hmnt.is_none());
            }
        }
    }
    if !masked {
        assert!(crate::verif_kani::kernel::counter_get(0) == 0);
    }
    // C11: handle + (returned fd) are the only descriptors left
    assert!(k.n_open() == 1 + if ok { 1 } else { 0 } + leaked_private());
    assert!(leaked_private() == 0);
    kani::cover!(ok, "opened");
    kani::cover!(!ok && kind == Some(ErrorKind::OsError(Some(libc::EXDEV))), "over-mount detected");
    kani::cover!(!ok && kind == Some(ErrorKind::OsError(Some(libc::ENOENT))), "ENOENT reported");
    kani::cover!(masked && crate::verif_kani::kernel::counter_get(0) == 1, "retried once on an unmasked handle");
}

fn leaked_private() -> usize {
    let k = kref();
    let mut n = 0;
    let mut i = 0;
    while i < MAX_FDS {
        if i < k.next && k.fds[i].open && k.fds[i].origin == O_PRIVATE_PROC {
            n += 1;
        }
        i += 1;
    }
    n
}

macro_rules! open_h {
    ($name:ident, $masked:expr) => {
        #[kani::proof]
        #[kani::unwind(18)]
        #[kani::stub(crate::resolvers::procfs::ProcfsResolver::resolve, k_proc_resolve)]
        #[kani::stub(crate::procfs::ProcfsBase::into_path, k_into_path)]
        #[kani::stub(crate::procfs::ProcfsHandle::new_unmasked, k_new_unmasked)]
        #[kani::stub(crate::syscalls::fstatfs, k_fstatfs)]
        #[kani::stub(crate::syscalls::statx, k_statx)]
        #[kani::stub(alloc::fmt::format, k_format)]
        fn $name() {
            open_body($masked);
        }
    };
}
open_h!(procfs_open_unmasked, false);
open_h!(procfs_open_masked, true);

macro_rules! open_s {
    ($name:ident, $masked:expr, $plan:expr, $errno:expr, $rh:expr, $sym:expr) => {
        #[kani::proof]
        #[kani::unwind(18)]
        #[kani::stub(crate::resolvers::procfs::ProcfsResolver::resolve, k_proc_resolve)]
        #[kani::stub(crate::procfs::ProcfsBase::into_path, k_into_path)]
        #[kani::stub(crate::procfs::ProcfsHandle::new_unmasked, k_new_unmasked)]
        #[kani::stub(crate::syscalls::fstatfs, k_fstatfs)]
        #[kani::stub(crate::syscalls::statx, k_statx)]
        #[kani::stub(alloc::fmt::format, k_format)]
        fn $name() {
            open_body_s($masked, $plan, $errno, $rh, $sym);
        }
    };
}
const OK6: [u8; 13] = [P_OK, P_OK, P_OK, P_OK, P_OK, P_OK, P_ANY, P_ANY, P_ANY, P_ANY, P_ANY, P_ANY, P_ANY];
const SUBFAIL: [u8; 13] = [P_OK, P_OK, P_OK, P_FAIL, P_ANY, P_ANY, P_ANY, P_ANY, P_ANY, P_ANY, P_ANY, P_ANY, P_ANY];
const RETRY_OK: [u8; 13] = [P_OK, P_OK, P_OK, P_FAIL, P_ANY, P_ANY, P_OK, P_OK, P_OK, P_OK, P_OK, P_OK, P_OK];
const RETRY_ENOENT: [u8; 13] = [P_OK, P_OK, P_OK, P_FAIL, P_ANY, P_ANY, P_OK, P_OK, P_OK, P_OK, P_FAIL, P_ANY, P_ANY];
// every kernel step answers Ok; mount ids / fs types stay symbolic (EXDEV vs success decided by the solver)
open_s!(procfs_open_okpath, false, OK6, 0, 0, true);
// the sub-path lookup fails with an arbitrary errno on an unmasked handle: no retry, clean error
open_s!(procfs_open_lookup_fails, false, SUBFAIL, 0, 0, false);
// masked handle, lookup says ENOENT, retry on an unmasked handle succeeds
open_s!(procfs_open_masked_retry_ok, true, RETRY_OK, libc::ENOENT, 1, false);
// masked handle, ENOENT, and the "unmasked" retry handle is masked again and also says ENOENT
open_s!(procfs_open_masked_retry_still_masked, true, RETRY_ENOENT, libc::ENOENT, 2, false);

// ---------------------------------------------------------------------------
// open_follow: the ONLY place a link is followed on purpose (C05 / C06 O6.5 / C07 O7.3)

use crate::verif_kani::kernel::{scratch_get, scratch_set};
use ::memchr as mc;

impl ProcfsHandle {
    /// stub for `ProcfsHandle::readlink`: "is it a link?" is an arbitrary answer
    pub(crate) fn k_readlink<P: AsRef<Path>>(&self, _base: ProcfsBase, subpath: P) -> Result<PathBuf, Error> {
        let (name, name_len) = copy_name(subpath.as_ref());
        let k = kmut();
        let mut c = NO_CALL;
        c.kind = C_READLINKAT;
        c.name = name;
        c.name_len = name_len;
        if k.fails() {
            c.errno = 1;
            k.push(c);
            Err(any_error())
        } else {
            c.ok = true;
            k.push(c);
            Ok(PathBuf::new())
        }
    }

    /// stub for `ProcfsHandle::open` (decided on its own: O6.4): records the
    /// request, returns an arbitrary verified-procfs descriptor or an error
    pub(crate) fn k_ph_open<P: AsRef<Path>, F: Into<OpenFlags>>(
        &self,
        _base: ProcfsBase,
        subpath: P,
        oflags: F,
    ) -> Result<File, Error> {
        let (name, name_len) = copy_name(subpath.as_ref());
        let k = kmut();
        let mut c = NO_CALL;
        c.kind = C_PROC_RESOLVE;
        c.name = name;
        c.name_len = name_len;
        c.flags = oflags.into().bits() as u32 as u64;
        if k.fails() {
            c.errno = 1;
            k.push(c);
            Err(any_error())
        } else {
            let fd = k.new_fd(O_PROC_RESOLVER, -1, false, c.flags);
            c.ok = true;
            c.ret_fd = fd;
            k.push(c);
            Ok(File::from(owned_fd(fd)))
        }
    }
}

fn open_follow_body(is_link: u8) {
    open_follow_body_s(is_link, false)
}

/// `no_faults`: the scenario in which no kernel call before the final open FAILS (parent lookup and
/// both statx calls answer, with arbitrary DATA: mount ids, masks) and the flag word is not a
/// creation one -- the scenario that decides "a link is followed only after its mount id was
/// compared with the parent's"; the failing-call scenarios are the all-P_ANY variant.
fn open_follow_body_s(is_link: u8, no_faults: bool) {
    install_close_model();
    reset(3);
    let hfd = given_fd(false);
    let h = ProcfsHandle::verif_make(hfd, kani::any(), false, true);
    kmut().plan[0] = is_link; // first fallible call = the readlink probe
    if no_faults {
        let k = kmut();
        k.plan[1] = P_OK;
        k.plan[2] = P_OK;
        k.plan[3] = P_OK;
    }
    let (buf, len) = sym_subpath();
    let sub = Path::new(std::ffi::OsStr::from_bytes(&buf[..len]));
    let bits: i32 = kani::any();
    if no_faults {
        kani::assume(bits & (libc::O_CREAT | libc::O_EXCL) == 0 && bits & libc::O_TMPFILE != libc::O_TMPFILE);
    }
    let res = h.open_follow(ProcfsBase::ProcThreadSelf, sub, OpenFlags::from_bits_retain(bits));
    let (ok, retfd, kind) = match &res {
        Ok(f) => (true, f.as_raw_fd(), None),
        Err(e) => (false, -1, Some(cheap_kind(e))),
    };
    std::mem::forget(res);
    std::mem::forget(h);
    let k = kref();
    assert!(!k.any_violation());
    // reference: strip trailing slashes (a path of only slashes is "/")
    let mut end = len;
    while end > 0 && buf[end - 1] == b'/' {
        end -= 1;
    }
    let only_slashes = end == 0 && len > 1;
    let trailing = end < len && (end > 0 || len > 1);
    let stripped: &[u8] = if only_slashes { &buf[..1] } else if end == 0 { &buf[..len] } else { &buf[..end] };
    let want_flags = (if trailing { bits | libc::O_DIRECTORY } else { bits }) as u32 as u64;
    let nfollow = k.count(C_OPENAT);
    let creation = bits & (libc::O_CREAT | libc::O_EXCL) != 0 || bits & libc::O_TMPFILE == libc::O_TMPFILE;
    if creation {
        // creation flags are refused before anything is looked up or followed
        assert!(!ok && kind == Some(ErrorKind::InvalidArgument), "open_follow must refuse creation flags");
        assert!(k.ncalls == 0 && nfollow == 0, "creation flags reached a lookup");
        kani::cover!(true, "creation flags refused");
        return;
    }
    assert!(k.ncalls >= 1 && k.log[0].kind == C_READLINKAT);
    assert!(bytes_eq(&k.log[0].name, k.log[0].name_len, stripped, stripped.len()));
    if is_link == P_FAIL {
        // not a link (or not readable as one): a plain no-follow open of the same path
        assert!(nfollow == 0, "followed something that is not a link");
        assert!(k.ncalls == 2 && k.log[1].kind == C_PROC_RESOLVE);
        assert!(bytes_eq(&k.log[1].name, k.log[1].name_len, stripped, stripped.len()));
        assert!(k.log[1].flags == want_flags);
        assert!(ok == k.log[1].ok);
        if ok {
            assert!(retfd == k.log[1].ret_fd);
        }
    } else {
        let r = ref_split(stripped);
        if !r.has_base {
            assert!(!ok && nfollow == 0 && k.ncalls == 1);
            assert!(kind == Some(ErrorKind::InvalidArgument));
        } else {
            // parent opened through the verified no-follow path, as a directory handle
            assert!(k.ncalls >= 2 && k.log[1].kind == C_PROC_RESOLVE);
            assert!(name_is_ref_dir(&k.log[1].name, k.log[1].name_len, stripped, &r));
            assert!(k.log[1].flags == (libc::O_PATH | libc::O_DIRECTORY) as u32 as u64);
            if !k.log[1].ok {
                assert!(!ok && nfollow == 0);
            } else {
                let parent = k.log[1].ret_fd;
                if nfollow > 0 {
                    assert!(nfollow == 1);
                    // the one following open: (verified parent, last component), caller's flags
                    let c = k.log[k.ncalls - 1];
                    assert!(c.kind == C_OPENAT && c.dirfd == parent);
                    assert!(name_is_ref_base(&c.name, c.name_len, stripped, &r));
                    assert!(single_component(&c.name, c.name_len));
                    assert!(c.flags == want_flags && c.mode == 0);
                    // ... and only after the link dentry itself was found on the parent's mount
                    let e = k.ent(parent).unwrap();
                    assert!(e.statx_seen);
                    let parent_mnt = if e.statx_ok && e.mnt_mask & 0x5000 != 0 { Some(e.mnt_id) } else { None };
                    assert!(named_statx_attempted(parent), "mount id of the link itself was never queried");
                    if named_statx_ok() {
                        let (lfd, lid, lmask) = crate::verif_kani::kernel::last_named_mnt();
                        assert!(lfd == parent);
                        let link_mnt = if lmask & 0x5000 != 0 { Some(lid) } else { None };
                        assert!(link_mnt == parent_mnt, "link on a different mount was followed");
                    } else {
                        // statx unsupported (ENOSYS/EINVAL) for the link: only acceptable when
                        // the parent's mount id is unknown as well (pre-5.8 kernel)
                        assert!(parent_mnt.is_none());
                    }
                    assert!(ok == c.ok);
                    if ok {
                        assert!(retfd == c.ret_fd);
                    }
                } else {
                    assert!(!ok);
                }
            }
        }
    }
    // C11: handle + returned fd only (the parent handle is closed)
    assert!(k.n_open() == 1 + if ok { 1 } else { 0 });
    kani::cover!(ok && nfollow == 1, "link followed");
    kani::cover!(ok && nfollow == 0, "plain open");
    kani::cover!(!ok && kind == Some(ErrorKind::OsError(Some(libc::EXDEV))), "over-mounted link refused");
    kani::cover!(trailing, "trailing slash implies O_DIRECTORY");
}

fn named_statx_attempted(parent: i32) -> bool {
    let k = kref();
    let mut a = false;
    let mut i = 0;
    while i < MAX_CALLS {
        if i < k.ncalls && k.log[i].kind == C_STATX && k.log[i].name_len > 0 && k.log[i].dirfd == parent {
            a = true;
        }
        i += 1;
    }
    a
}

fn named_statx_ok() -> bool {
    let k = kref();
    let mut ok = false;
    let mut i = 0;
    while i < MAX_CALLS {
        if i < k.ncalls && k.log[i].kind == C_STATX && k.log[i].name_len > 0 && k.log[i].ok {
            ok = true;
        }
        i += 1;
    }
    ok
}

macro_rules! of_h {
    ($name:ident, $l:expr) => {
        #[kani::proof]
        #[kani::unwind(18)]
        #[kani::stub(crate::procfs::ProcfsHandle::readlink, crate::procfs::ProcfsHandle::k_readlink)]
        #[kani::stub(crate::procfs::ProcfsHandle::open, crate::procfs::ProcfsHandle::k_ph_open)]
        #[kani::stub(crate::syscalls::statx, k_statx)]
        #[kani::stub(crate::syscalls::openat_follow, k_openat_follow)]
        #[kani::stub(mc::memchr::memchr, k_memchr)]
        #[kani::stub(mc::memchr::memrchr, k_memrchr)]
        #[kani::stub(alloc::fmt::format, k_format)]
        fn $name() {
            open_follow_body($l);
        }
    };
}
of_h!(procfs_open_follow_link, P_OK);

#[kani::proof]
#[kani::unwind(18)]
#[kani::stub(crate::procfs::ProcfsHandle::readlink, crate::procfs::ProcfsHandle::k_readlink)]
#[kani::stub(crate::procfs::ProcfsHandle::open, crate::procfs::ProcfsHandle::k_ph_open)]
#[kani::stub(crate::syscalls::statx, k_statx)]
#[kani::stub(crate::syscalls::openat_follow, k_openat_follow)]
#[kani::stub(mc::memchr::memchr, k_memchr)]
#[kani::stub(mc::memchr::memrchr, k_memrchr)]
#[kani::stub(alloc::fmt::format, k_format)]
fn procfs_open_follow_link_nofault() {
    open_follow_body_s(P_OK, true);
}
of_h!(procfs_open_follow_notlink, P_FAIL);

// ---------------------------------------------------------------------------
// C10: handle construction under fd exhaustion, and the first use of the global handle

macro_rules! new_h {
    ($name:ident, $body:block) => {
        #[kani::proof]
        #[kani::unwind(18)]
        #[kani::stub(crate::syscalls::fsopen, k_fsopen)]
        #[kani::stub(crate::syscalls::fsconfig_set_string, k_fsconfig_set_string)]
        #[kani::stub(crate::syscalls::fsconfig_create, k_fsconfig_create)]
        #[kani::stub(crate::syscalls::fsmount, k_fsmount)]
        #[kani::stub(crate::syscalls::open_tree, k_open_tree)]
        #[kani::stub(crate::syscalls::openat_follow, k_openat_follow)]
        #[kani::stub(alloc::fmt::format, k_format)]
        fn $name() $body
    };
}

new_h!(procfs_new_all_fail, {
    install_close_model();
    reset(3);
    kmut().all_fail = true;
    let r = ProcfsHandle::new();
    assert!(r.is_err(), "handle reported although every constructor failed");
    std::mem::forget(r);
    let k = kref();
    // fsopen -> open_tree -> plain open, each tried once; nothing left open
    assert!(k.count(C_FSOPEN) == 1 && k.count(C_OPEN_TREE) == 1 && k.count(C_OPENAT) == 1);
    assert!(k.n_open() == 0 && !k.any_violation());
    kani::cover!(true, "reached");
});

/// `ProcfsHandle::new` fails (its own behaviour under faults: procfs_new_all_fail)
pub(crate) fn k_procfs_new_fails() -> Result<ProcfsHandle, Error> {
    Err(any_error())
}

#[kani::proof]
#[kani::unwind(8)]
#[kani::stub(crate::procfs::ProcfsHandle::new, k_procfs_new_fails)]
#[kani::stub(alloc::fmt::format, k_format)]
fn procfs_global_handle_init_fault() {
    install_close_model();
    reset(3);
    // first use of the process-wide handle while no descriptor can be opened
    let h: &ProcfsHandle = &GLOBAL_PROCFS_HANDLE;
    let _ = h.is_subset;
    kani::cover!(true, "reached");
}


// ---------------------------------------------------------------------------
// C08 again, cheaper: the retry LOGIC of `open` with its constituents replaced by contracts
// (open_base and verify_same_procfs_mnt are decided for real in the okpath/lookup_fails harnesses).
// The fully real two-level variant above needs > 30 GB.

impl ProcfsHandle {
    pub(crate) fn k_open_base(&self, _base: ProcfsBase) -> Result<OwnedFd, Error> {
        let k = kmut();
        let mut c = NO_CALL;
        c.kind = C_PROC_RESOLVE;
        c.dirfd = self.inner.as_raw_fd();
        c.flags = 0xba5e;
        if k.fails() {
            c.errno = any_errno();
            k.push(c);
            Err(ErrorImpl::OsError { operation: "stub".into(), source: IOError::from_raw_os_error(c.errno) }.into())
        } else {
            let fd = k.new_fd(O_PROC_RESOLVER, c.dirfd, false, 0);
            c.ok = true;
            c.ret_fd = fd;
            k.push(c);
            Ok(owned_fd(fd))
        }
    }

    pub(crate) fn k_verify_same_procfs_mnt<Fd: AsFd>(&self, fd: Fd) -> Result<(), Error> {
        let raw = fd.as_fd().as_raw_fd();
        let k = kmut();
        k.touch(raw);
        let mut c = NO_CALL;
        c.kind = C_STATX;
        c.dirfd = raw;
        c.flags = 0x7e1f;
        if let Some(i) = k.idx(raw) {
            k.fds[i].statx_seen = true;
            k.fds[i].statfs_seen = true;
        }
        if k.fails() {
            c.errno = libc::EXDEV;
            k.push(c);
            Err(ErrorImpl::OsError { operation: "stub".into(), source: IOError::from_raw_os_error(libc::EXDEV) }.into())
        } else {
            c.ok = true;
            k.push(c);
            Ok(())
        }
    }
}

/// plan: [0] open_base [1] sub-path lookup [2] verify  [3] new_unmasked  [4] open_base' [5] lookup' [6] verify'
fn retry_body(plan: [u8; 8], fixed_errno: i32, retry_handle: u64, masked: bool) {
    install_close_model();
    reset(3);
    crate::verif_kani::kernel::counter_reset();
    crate::verif_kani::kernel::scratch_set(retry_handle, 0, 0, 0);
    {
        let k = kmut();
        let mut i = 0;
        while i < 8 {
            k.plan[i] = plan[i];
            i += 1;
        }
        k.fixed_errno = fixed_errno;
    }
    let hfd = given_fd(false);
    let h = ProcfsHandle::verif_make(hfd, kani::any(), masked, kani::any());
    let bits: i32 = kani::any();
    let res = h.open(ProcfsBase::ProcSelf, Path::new("x"), OpenFlags::from_bits_retain(bits));
    let (ok, retfd, kind) = match &res {
        Ok(f) => (true, f.as_raw_fd(), None),
        Err(e) => (false, -1, Some(cheap_kind(e))),
    };
    std::mem::forget(res);
    std::mem::forget(h);
    let k = kref();
    assert!(!k.any_violation());
    let retries = crate::verif_kani::kernel::counter_get(0);
    // at most ONE retry handle per lookup, and only for ENOENT on a masked handle
    assert!(retries <= 1);
    if !masked {
        assert!(retries == 0);
    }
    if retries == 1 {
        assert!(masked && k.ncalls >= 2 && !k.log[1].ok && k.log[1].errno == libc::ENOENT);
    }
    if ok {
        // whatever is returned was verified by the handle that produced it
        let e = k.ent(retfd).unwrap();
        assert!(e.statx_seen && e.statfs_seen);
    } else if fixed_errno == libc::ENOENT && plan[0] == P_OK && plan[1] == P_FAIL {
        // a path that does not exist is reported as ENOENT (not as the retry machinery's error)
        if retry_handle == 2 || plan[3] == P_FAIL {
            assert!(kind == Some(ErrorKind::OsError(Some(libc::ENOENT))));
        }
    }
    // descriptors: the handle + the returned one; the retry handle and both base dirs are closed
    assert!(k.n_open() == 1 + if ok { 1 } else { 0 });
    kani::cover!(retries == 1 && ok, "retry succeeded on the unmasked handle");
    kani::cover!(retries == 1 && !ok, "retry did not help");
    kani::cover!(retries == 0, "no retry");
}

macro_rules! retry_h {
    ($name:ident, $plan:expr, $errno:expr, $rh:expr, $masked:expr) => {
        #[kani::proof]
        #[kani::unwind(18)]
        #[kani::stub(crate::procfs::ProcfsHandle::open_base, crate::procfs::ProcfsHandle::k_open_base)]
        #[kani::stub(crate::procfs::ProcfsHandle::verify_same_procfs_mnt, crate::procfs::ProcfsHandle::k_verify_same_procfs_mnt)]
        #[kani::stub(crate::resolvers::procfs::ProcfsResolver::resolve, k_proc_resolve)]
        #[kani::stub(crate::procfs::ProcfsHandle::new_unmasked, k_new_unmasked)]
        #[kani::stub(alloc::fmt::format, k_format)]
        fn $name() {
            retry_body($plan, $errno, $rh, $masked);
        }
    };
}
// masked handle, ENOENT, retry on a really unmasked handle: arbitrary outcome there
retry_h!(procfs_retry_unmasked_handle, [P_OK, P_FAIL, P_ANY, P_OK, P_ANY, P_ANY, P_ANY, P_ANY], libc::ENOENT, 1, true);
// masked handle, ENOENT, the "unmasked" handle is masked again and also says ENOENT: must stop after one retry
retry_h!(procfs_retry_masked_again, [P_OK, P_FAIL, P_ANY, P_OK, P_OK, P_FAIL, P_ANY, P_ANY], libc::ENOENT, 2, true);
// masked handle, ENOENT, creating the retry handle fails: the original ENOENT is reported
retry_h!(procfs_retry_handle_creation_fails, [P_OK, P_FAIL, P_ANY, P_FAIL, P_ANY, P_ANY, P_ANY, P_ANY], libc::ENOENT, 1, true);
// masked handle, lookup fails with EACCES: not retried
retry_h!(procfs_retry_not_for_other_errno, [P_OK, P_FAIL, P_ANY, P_ANY, P_ANY, P_ANY, P_ANY, P_ANY], libc::EACCES, 1, true);

// ---------------------------------------------------------------------------
// readlink = no-follow open (O_PATH) of the path + readlinkat(fd, "")

#[kani::proof]
#[kani::unwind(18)]
#[kani::stub(crate::procfs::ProcfsHandle::open, crate::procfs::ProcfsHandle::k_ph_open)]
#[kani::stub(crate::procfs::ProcfsHandle::open_follow, crate::procfs::ProcfsHandle::k_open_follow)]
#[kani::stub(crate::syscalls::readlinkat, k_readlinkat_err)]
#[kani::stub(alloc::fmt::format, k_format)]
fn procfs_readlink_body() {
    install_close_model();
    reset(3);
    crate::verif_kani::kernel::of_set(0, 0, false, -1);
    let hfd = given_fd(false);
    let h = ProcfsHandle::verif_make(hfd, kani::any(), false, true);
    let (buf, len) = sym_subpath();
    let sub = Path::new(std::ffi::OsStr::from_bytes(&buf[..len]));
    let res = h.readlink(ProcfsBase::ProcSelf, sub);
    let ok = res.is_ok();
    std::mem::forget(res);
    std::mem::forget(h);
    let k = kref();
    assert!(!k.any_violation());
    // never through the following variant
    assert!(crate::verif_kani::kernel::of_get().0 == 0, "readlink went through open_follow");
    // exactly one no-follow lookup of the very path with O_PATH and nothing else ...
    assert!(k.ncalls >= 1 && k.log[0].kind == C_PROC_RESOLVE);
    assert!(bytes_eq(&k.log[0].name, k.log[0].name_len, &buf, len));
    assert!(k.log[0].flags == libc::O_PATH as u32 as u64);
    if k.log[0].ok {
        // ... and the link body is read from THAT descriptor (empty path), not by name
        assert!(k.ncalls == 2 && k.log[1].kind == C_READLINKAT);
        assert!(k.log[1].dirfd == k.log[0].ret_fd && k.log[1].name_len == 0);
    } else {
        assert!(k.ncalls == 1);
    }
    assert!(!ok); // (the readlinkat model can only fail: link bodies are heap strings)
    assert!(k.n_open() == 1);
    kani::cover!(k.ncalls == 2, "link body requested");
    kani::cover!(k.ncalls == 1, "lookup failed");
}
