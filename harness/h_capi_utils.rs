//! child module of `crate::capi::utils` (feature capi)
//!   capi_borrowed_fd_all      : CBorrowedFd::try_as_borrowed_fd for EVERY i32 (C17)
//!   capi_copy_path_into_buffer: bounded copy for every body <= L x buffer size 0..=L+2 x {NULL, buffer} (C17)
//!   capi_parse_path_null      : NULL path refused (C17)
#![allow(dead_code, static_mut_refs, clippy::all, unused_imports)]

use super::*;
use crate::error::verif_h_error::cheap_kind;
use crate::error::ErrorKind;
use crate::verif_kani::bounds::PATH_L;
use crate::verif_kani::kernel::k_format;

#[kani::proof]
#[kani::unwind(3)]
#[kani::stub(alloc::fmt::format, k_format)]
fn capi_borrowed_fd_all() {
    let raw: i32 = kani::any();
    let c = CBorrowedFd { inner: raw, _phantom: PhantomData };
    let res = c.try_as_borrowed_fd();
    match &res {
        Ok(fd) => {
            assert!(raw >= 0, "negative descriptor accepted");
            assert!(fd.as_raw_fd() == raw);
        }
        Err(e) => {
            assert!(raw < 0, "valid descriptor number refused");
            assert!(cheap_kind(e) == ErrorKind::InvalidArgument);
        }
    }
    kani::cover!(res.is_ok() && raw == 0, "fd 0 accepted");
    kani::cover!(res.is_err() && raw == -1, "-1 refused");
    kani::cover!(res.is_err() && raw == libc::AT_FDCWD, "AT_FDCWD refused");
    std::mem::forget(res);
}

#[kani::proof]
#[kani::unwind(3)]
#[kani::stub(alloc::fmt::format, k_format)]
fn capi_parse_path_null() {
    let res = unsafe { parse_path(std::ptr::null()) };
    match &res {
        Ok(_) => assert!(false, "NULL path accepted"),
        Err(e) => assert!(cheap_kind(e) == ErrorKind::InvalidArgument),
    }
    kani::cover!(res.is_err(), "refused");
    std::mem::forget(res);
}

const BUF_MAX: usize = PATH_L + 2;
const CANARY: u8 = 0xA5;

fn copy_body(null_buf: bool) {
    let body: [u8; PATH_L] = kani::any();
    let len: usize = kani::any();
    kani::assume(len <= PATH_L);
    let mut i = 0;
    while i < PATH_L {
        if i < len {
            kani::assume(body[i] != 0); // readlink bodies never contain NUL
        }
        i += 1;
    }
    let bufsize: usize = kani::any();
    kani::assume(bufsize <= BUF_MAX);
    // caller buffer = arena[1 .. 1+bufsize], canaries everywhere else
    let mut arena = [CANARY; BUF_MAX + 2];
    let p: *mut c_char = if null_buf {
        std::ptr::null_mut()
    } else {
        unsafe { arena.as_mut_ptr().add(1) as *mut c_char }
    };
    let path = Path::new(OsStr::from_bytes(&body[..len]));
    let res = unsafe { copy_path_into_buffer(path, p, bufsize) };
    match &res {
        Ok(n) => assert!(*n as usize == len, "must return the full length of the link body"),
        Err(_) => assert!(false, "copy failed"),
    }
    std::mem::forget(res);
    let copied = if null_buf { 0 } else if len < bufsize { len } else { bufsize };
    assert!(arena[0] == CANARY);
    let mut j = 0;
    while j < BUF_MAX + 1 {
        let v = arena[1 + j];
        if j < copied {
            assert!(v == body[j], "copied prefix differs");
        } else {
            assert!(v == CANARY, "wrote beyond min(length, buffer size)");
        }
        j += 1;
    }
    kani::cover!(!null_buf && len > bufsize && bufsize > 0, "truncated copy");
    kani::cover!(!null_buf && len < bufsize, "buffer larger than body");
    kani::cover!(!null_buf && bufsize == 0, "zero-sized buffer");
    kani::cover!(null_buf && bufsize > 0, "NULL buffer with non-zero size");
}

#[kani::proof]
#[kani::unwind(9)]
#[kani::stub(alloc::fmt::format, k_format)]
fn capi_copy_path_into_buffer() {
    copy_body(false);
}

#[kani::proof]
#[kani::unwind(9)]
#[kani::stub(alloc::fmt::format, k_format)]
fn capi_copy_path_null_buffer() {
    copy_body(true);
}

impl CBorrowedFd<'static> {
    /// any raw value, as a C caller could pass it
    pub(crate) fn verif_raw(raw: i32) -> Self {
        CBorrowedFd { inner: raw, _phantom: PhantomData }
    }
}
