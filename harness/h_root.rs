//! Harnesses compiled as a CHILD module of `crate::root` (so private items
//! are reachable): Root operations around the in-root resolver.
//!
//!  root_resolve_parent : real `resolve_parent` == (resolve(ref_dir), ref_base)
//!  root_create_*       : given resolve_parent's contract, exactly one *at call
//!  root_create_file, root_remove_inode, root_rename, root_remove_all_top,
//!  root_mkdir_all_*
#![allow(dead_code, static_mut_refs, clippy::all, unused_imports)]

use super::*;
use crate::error::ErrorKind;
use crate::error::verif_h_error::cheap_kind;
use crate::verif_kani::bounds::PATH_L;
use crate::verif_kani::kernel::*;
use crate::verif_kani::stubs::*;
use ::memchr as mc;

use std::{ffi::OsStr, os::unix::io::{AsRawFd, FromRawFd}};

/// Contract stub for `RootRef::resolve_parent`, justified by the harness
/// `root_resolve_parent`: the parent is whatever the in-root resolver returns
/// for the reference directory part, the name is the reference base.
impl RootRef<'_> {
    pub(crate) fn k_resolve_parent<'p>(&self, path: &'p Path) -> Result<(OwnedFd, Option<&'p Path>), Error> {
        let raw = self.inner.as_raw_fd();
        let p = path.as_os_str().as_bytes();
        let r = ref_split(p);
        {
            let kk = kmut();
            kk.touch(raw);
            let mut c = NO_CALL;
            c.kind = C_RESOLVE;
            c.dirfd = raw;
            c.name_len = p.len(); // remember WHICH path was split (length is enough to tell source/destination apart in the harnesses)
            c.flags = r.has_base as u64;
            if kk.fails() {
                c.errno = 1;
                kk.push(c);
                Err(any_error())
            } else {
                let fd = kk.new_fd(O_RESOLVER, raw, true, (libc::O_PATH | libc::O_CLOEXEC) as u64);
                c.ok = true;
                c.ret_fd = fd;
                kk.push(c);
                // scenario switch: the SHAPE (Some/None) is concrete per
                // harness, the data symbolic; both shapes are separate harnesses
                let wb = if kk.nsplit < 2 { kk.want_base[kk.nsplit] } else { P_ANY };
                kk.nsplit += 1;
                let name = if wb == P_OK {
                    kani::assume(r.has_base);
                    Some(Path::new(OsStr::from_bytes(&p[r.base_start..])))
                } else if wb == P_FAIL {
                    kani::assume(!r.has_base);
                    None
                } else if r.has_base {
                    Some(Path::new(OsStr::from_bytes(&p[r.base_start..])))
                } else {
                    None
                };
                Ok((owned_fd(fd), name))
            }
        }
    }
}

/// Descriptor numbers are CONCRETE in every environment harness: `OwnedFd`'s
/// niche (-1) carries the discriminant of `Result<OwnedFd, _>` /
/// `Result<(OwnedFd, _), Error>`, so a symbolic number makes symex explore the
/// `Err` arm on garbage payload bytes (measured: 300 s -> seconds).  The
/// dependence on the descriptor NUMBER is decided separately (C09: ∀ i32).
pub(crate) fn any_base() -> i32 {
    3
}

pub(crate) struct SymPath {
    pub buf: [u8; PATH_L],
    pub len: usize,
}
impl SymPath {
    pub fn any() -> Self {
        let buf: [u8; PATH_L] = kani::any();
        let len: usize = kani::any();
        kani::assume(len <= PATH_L);
        SymPath { buf, len }
    }
    pub fn bytes(&self) -> &[u8] {
        &self.buf[..self.len]
    }
    pub fn path(&self) -> &Path {
        Path::new(OsStr::from_bytes(&self.buf[..self.len]))
    }
}

fn setup() -> (i32, RootRef<'static>) {
    install_close_model();
    reset(any_base());
    let rootfd = given_fd(true);
    let root = RootRef {
        inner: borrow_fd(rootfd),
        resolver: Resolver {
            backend: if kani::any() {
                crate::resolvers::ResolverBackend::KernelOpenat2
            } else {
                crate::resolvers::ResolverBackend::EmulatedOpath
            },
            flags: ResolverFlags::from_bits_retain(kani::any()),
        },
    };
    (rootfd, root)
}

fn is_mutating(kind: u8) -> bool {
    kind == C_MKDIRAT
        || kind == C_MKNODAT
        || kind == C_UNLINKAT
        || kind == C_LINKAT
        || kind == C_SYMLINKAT
        || kind == C_RENAMEAT2
        || kind == C_OPENAT
        || kind == C_OPENAT2
}

struct Trace {
    nres: usize,
    res: [Call; 2],
    nmut: usize,
    mutc: Call,
    mut_after_res: bool,
}

fn trace() -> Trace {
    let k = kref();
    let mut t = Trace { nres: 0, res: [NO_CALL; 2], nmut: 0, mutc: NO_CALL, mut_after_res: true };
    let mut i = 0;
    while i < MAX_CALLS {
        if i < k.ncalls {
            let c = k.log[i];
            if c.kind == C_RESOLVE {
                if t.nres < 2 {
                    t.res[t.nres] = c;
                }
                t.nres += 1;
                if t.nmut > 0 {
                    t.mut_after_res = false;
                }
            } else if is_mutating(c.kind) {
                t.nmut += 1;
                t.mutc = c;
            }
        }
        i += 1;
    }
    t
}

/// C11 + model sanity: only the caller's root descriptor remains open, it was
/// never closed, nothing was closed twice / used after close.
fn fd_table_clean(rootfd: i32, extra_open: usize) {
    let k = kref();
    assert!(!k.any_violation());
    assert!(k.n_open() == 1 + extra_open);
    assert!(k.ent(rootfd).unwrap().open);
}

// ---------------------------------------------------------------------------
// resolve_parent itself (real path_split + real wraps, resolver stubbed)

#[kani::proof]
#[kani::unwind(7)]
#[kani::stub(crate::resolvers::Resolver::resolve, k_resolve)]
#[kani::stub(mc::memchr::memchr, k_memchr)]
#[kani::stub(mc::memchr::memrchr, k_memrchr)]
#[kani::stub(alloc::fmt::format, k_format)]
fn root_resolve_parent() {
    let (rootfd, root) = setup();
    let p = SymPath::any();
    let res = root.resolve_parent(p.path());
    let r = ref_split(p.bytes());
    let k = kref();
    // exactly one resolver call, on the caller's root, for the reference
    // directory, following trailing links; nothing else touches the kernel
    assert!(k.ncalls == 1);
    let c = k.log[0];
    assert!(c.kind == C_RESOLVE);
    assert!(c.dirfd == rootfd);
    assert!(c.flags == 0);
    assert!(name_is_ref_dir(&c.name, c.name_len, p.bytes(), &r));
    match &res {
        Ok((dir, name)) => {
            assert!(c.ok);
            assert!(dir.as_raw_fd() == c.ret_fd);
            match name {
                None => { assert!(!r.has_base); }
                Some(n) => {
                    assert!(r.has_base);
                    let nb = n.as_os_str().as_bytes();
                    assert!(nb.len() == r.base_len);
                    // same bytes, and literally the tail of the input
                    assert!(nb.as_ptr() == p.bytes()[r.base_start..].as_ptr());
                    // never empty, never contains '/'
                    assert!(!nb.is_empty());
                    let mut i = 0;
                    while i < PATH_L {
                        if i < nb.len() {
                            assert!(nb[i] != b'/');
                        }
                        i += 1;
                    }
                }
            }
            fd_table_clean(rootfd, 1);
        }
        Err(_) => {
            assert!(!c.ok);
            fd_table_clean(rootfd, 0);
        }
    }
    kani::cover!(matches!(&res, Ok((_, None))), "no base");
    kani::cover!(matches!(&res, Ok((_, Some(_)))), "base");
    kani::cover!(res.is_err(), "resolver failed");
    std::mem::forget(res);
}

// ---------------------------------------------------------------------------
// operations, given resolve_parent's contract

macro_rules! op_harness {
    ($(#[$m:meta])* fn $name:ident() $body:block) => {
        #[kani::proof]
        #[kani::unwind(7)]
        #[kani::stub(crate::root::RootRef::resolve_parent, crate::root::RootRef::k_resolve_parent)]
        #[kani::stub(crate::syscalls::openat_follow, k_openat_follow)]
        #[kani::stub(crate::syscalls::mkdirat, k_mkdirat)]
        #[kani::stub(crate::syscalls::mknodat, k_mknodat)]
        #[kani::stub(crate::syscalls::unlinkat, k_unlinkat)]
        #[kani::stub(crate::syscalls::linkat, k_linkat)]
        #[kani::stub(crate::syscalls::symlinkat, k_symlinkat)]
        #[kani::stub(crate::syscalls::renameat2, k_renameat2)]
        #[kani::stub(alloc::fmt::format, k_format)]
        $(#[$m])*
        fn $name() $body
    };
}

/// common post-condition of a single-entry operation on `p`
fn single_entry_post(p: &SymPath, t: &Trace, kind: u8, ok: bool, ekind: Option<ErrorKind>, rootfd: i32) {
    let r = ref_split(p.bytes());
    assert!(t.nres == 1);
    assert!(t.nmut <= 1);
    let rc = t.res[0];
    assert!(rc.dirfd == rootfd);
    if t.nmut == 1 {
        let m = t.mutc;
        assert!(m.kind == kind);
        assert!(rc.ok && r.has_base);
        assert!(m.dirfd == rc.ret_fd);
        assert!(name_is_ref_base(&m.name, m.name_len, p.bytes(), &r));
        assert!(single_component(&m.name, m.name_len));
        assert!(ok == m.ok);
        if !m.ok {
            assert!(ekind == Some(ErrorKind::OsError(Some(m.errno))));
        }
    } else {
        assert!(!ok);
        if rc.ok {
            assert!(!r.has_base);
            assert!(ekind == Some(ErrorKind::InvalidArgument));
        }
    }
    fd_table_clean(rootfd, 0);
}

fn root_create_mknod_kinds_body(base: u8) {
    let (rootfd, root) = setup();
    kmut().want_base = [base, base];
    let p = SymPath::any();
    let mode: u32 = kani::any();
    let dev: u64 = kani::any();
    let sel: u8 = kani::any();
    kani::assume(sel < 4);
    let perm = Permissions::from_mode(mode);
    let (ty, want_fmt, want_dev) = match sel {
        0 => (InodeType::File(perm), libc::S_IFREG, 0),
        1 => (InodeType::Fifo(perm), libc::S_IFIFO, 0),
        2 => (InodeType::CharacterDevice(perm, dev), libc::S_IFCHR, dev),
        _ => (InodeType::BlockDevice(perm, dev), libc::S_IFBLK, dev),
    };
    let res = root.create(p.path(), &ty);
    let (ok, ekind) = match &res { Ok(()) => (true, None), Err(e) => (false, Some(cheap_kind(e))) };
    std::mem::forget(res);
    std::mem::forget(ty);
    let t = trace();
    single_entry_post(&p, &t, C_MKNODAT, ok, ekind, rootfd);
    if t.nmut == 1 {
        assert!(t.mutc.mode == want_fmt | (mode & !libc::S_IFMT));
        assert!(t.mutc.dev == want_dev);
    }
    kani::cover!(ok, "created");
    kani::cover!(!ok && t.nmut == 1, "mknodat failed");
    kani::cover!(ekind == Some(ErrorKind::InvalidArgument), "trailing slash refused");
}

op_harness! { fn root_create_mknod_kinds_base() { root_create_mknod_kinds_body(P_OK); } }
op_harness! { fn root_create_mknod_kinds_nobase() { root_create_mknod_kinds_body(P_FAIL); } }

fn root_create_dir_body(base: u8) {
    let (rootfd, root) = setup();
    kmut().want_base = [base, base];
    let p = SymPath::any();
    let mode: u32 = kani::any();
    let ty = InodeType::Directory(Permissions::from_mode(mode));
    let res = root.create(p.path(), &ty);
    let (ok, ekind) = match &res { Ok(()) => (true, None), Err(e) => (false, Some(cheap_kind(e))) };
    std::mem::forget(res);
    std::mem::forget(ty);
    let t = trace();
    single_entry_post(&p, &t, C_MKDIRAT, ok, ekind, rootfd);
    if t.nmut == 1 {
        assert!(t.mutc.mode == mode & !libc::S_IFMT);
    }
    kani::cover!(ok, "created");
    kani::cover!(!ok && t.nmut == 1, "mkdirat failed");
}

op_harness! { fn root_create_dir_base() { root_create_dir_body(P_OK); } }
op_harness! { fn root_create_dir_nobase() { root_create_dir_body(P_FAIL); } }

fn root_create_symlink_body(base: u8) {
    let (rootfd, root) = setup();
    kmut().want_base = [base, base];
    let p = SymPath::any();
    let tgt = SymPath::any();
    let ty = InodeType::Symlink(PathBuf::from(tgt.path()));
    let res = root.create(p.path(), &ty);
    let (ok, ekind) = match &res { Ok(()) => (true, None), Err(e) => (false, Some(cheap_kind(e))) };
    std::mem::forget(res);
    std::mem::forget(ty);
    let t = trace();
    single_entry_post(&p, &t, C_SYMLINKAT, ok, ekind, rootfd);
    if t.nmut == 1 {
        // target handed to the kernel verbatim
        assert!(bytes_eq(&t.mutc.name2, t.mutc.name2_len, tgt.bytes(), tgt.len));
    }
    kani::cover!(ok, "created");
}

op_harness! { fn root_create_symlink_base() { root_create_symlink_body(P_OK); } }
op_harness! { fn root_create_symlink_nobase() { root_create_symlink_body(P_FAIL); } }

fn root_create_hardlink_body(b0: u8, b1: u8) {
    let (rootfd, root) = setup();
    kmut().want_base = [b0, b1];
    let p = SymPath::any();
    let tgt = SymPath::any();
    kani::assume(tgt.len != p.len); // lets the trace tell the two splits apart
    let ty = InodeType::Hardlink(PathBuf::from(tgt.path()));
    let res = root.create(p.path(), &ty);
    let (ok, _ekind) = match &res { Ok(()) => (true, None), Err(e) => (false, Some(cheap_kind(e))) };
    std::mem::forget(res);
    std::mem::forget(ty);
    let t = trace();
    let rp = ref_split(p.bytes());
    let rt = ref_split(tgt.bytes());
    assert!(t.nres >= 1 && t.nres <= 2 && t.nmut <= 1 && t.mut_after_res);
    assert!(t.res[0].name_len == p.len); // new entry's parent is resolved first
    if t.nres == 2 {
        assert!(t.res[1].name_len == tgt.len);
        assert!(t.res[0].ok && rp.has_base);
    }
    if t.nmut == 1 {
        let m = t.mutc;
        assert!(m.kind == C_LINKAT);
        assert!(t.nres == 2 && t.res[0].ok && t.res[1].ok && rp.has_base && rt.has_base);
        // old = (parent(target), base(target)); new = (parent(path), base(path))
        assert!(m.dirfd == t.res[1].ret_fd);
        assert!(name_is_ref_base(&m.name, m.name_len, tgt.bytes(), &rt));
        assert!(m.dirfd2 == t.res[0].ret_fd);
        assert!(name_is_ref_base(&m.name2, m.name2_len, p.bytes(), &rp));
        assert!(m.flags == 0); // no AT_SYMLINK_FOLLOW
        assert!(ok == m.ok);
    } else {
        assert!(!ok);
    }
    fd_table_clean(rootfd, 0);
    kani::cover!(ok, "linked");
    kani::cover!(t.nres == 2 && t.nmut == 0, "target trailing slash / resolver failure");
}

op_harness! { fn root_create_hardlink_base() { root_create_hardlink_body(P_OK, P_OK); } }
op_harness! { fn root_create_hardlink_nobase2() { root_create_hardlink_body(P_OK, P_FAIL); } }
op_harness! { fn root_create_hardlink_nobase1() { root_create_hardlink_body(P_FAIL, P_ANY); } }

fn root_create_file_body(base: u8) {
    let (rootfd, root) = setup();
    kmut().want_base = [base, base];
    let p = SymPath::any();
    let mode: u32 = kani::any();
    let flags = OpenFlags::from_bits_retain(kani::any());
    let perm = Permissions::from_mode(mode);
    let res = root.create_file(p.path(), flags, &perm);
    let (ok, ekind, retfd) = match &res {
        Ok(f) => (true, None, f.as_raw_fd()),
        Err(e) => (false, Some(cheap_kind(e)), -1),
    };
    std::mem::forget(res);
    let t = trace();
    // the returned descriptor stays open: close bookkeeping below accounts for it
    let r = ref_split(p.bytes());
    assert!(t.nres == 1 && t.nmut <= 1);
    if t.nmut == 1 {
        let m = t.mutc;
        assert!(m.kind == C_OPENAT);
        assert!(t.res[0].ok && r.has_base);
        assert!(m.dirfd == t.res[0].ret_fd);
        assert!(name_is_ref_base(&m.name, m.name_len, p.bytes(), &r));
        // as seen at the openat_follow boundary: caller's flags + O_CREAT + the O_NOFOLLOW that
        // syscalls::openat forces (O_CLOEXEC|O_NOCTTY are added inside openat_follow: O5.1b)
        let want = (flags.bits() | libc::O_CREAT | libc::O_NOFOLLOW) as u32 as u64;
        assert!(m.flags == want);
        assert!(m.mode == mode);
        assert!(ok == m.ok);
        if ok {
            // the very descriptor the kernel returned for that open
            assert!(retfd == m.ret_fd);
        } else {
            assert!(ekind == Some(ErrorKind::OsError(Some(m.errno))));
        }
    } else {
        assert!(!ok);
        if t.res[0].ok {
            assert!(!r.has_base && ekind == Some(ErrorKind::InvalidArgument));
        }
    }
    fd_table_clean(rootfd, if ok { 1 } else { 0 });
    kani::cover!(ok, "created");
    kani::cover!(!ok && t.nmut == 1, "openat failed");
}

op_harness! { fn root_create_file_base() { root_create_file_body(P_OK); } }
op_harness! { fn root_create_file_nobase() { root_create_file_body(P_FAIL); } }

fn remove_inode_body(base: u8) {
    let (rootfd, root) = setup();
    kmut().want_base = [base, base];
    let p = SymPath::any();
    let isdir: bool = kani::any();
    let res = if isdir { root.remove_dir(p.path()) } else { root.remove_file(p.path()) };
    let (ok, ekind) = match &res { Ok(()) => (true, None), Err(e) => (false, Some(cheap_kind(e))) };
    std::mem::forget(res);
    let t = trace();
    single_entry_post(&p, &t, C_UNLINKAT, ok, ekind, rootfd);
    if t.nmut == 1 {
        assert!(t.mutc.flags == if isdir { libc::AT_REMOVEDIR as u64 } else { 0 });
    }
    kani::cover!(ok && isdir, "rmdir done");
    kani::cover!(ok && !isdir, "unlink done");
    kani::cover!(!ok && t.nmut == 1, "unlinkat failed");
    kani::cover!(!ok && t.nmut == 0 && !t.res[0].ok, "resolver failed");
    kani::cover!(ekind == Some(ErrorKind::InvalidArgument), "trailing slash refused");
}

op_harness! { fn root_remove_inode_base() { remove_inode_body(P_OK); } }
op_harness! { fn root_remove_inode_nobase() { remove_inode_body(P_FAIL); } }

fn root_rename_body(b0: u8, b1: u8) {
    let (rootfd, root) = setup();
    kmut().want_base = [b0, b1];
    let src = SymPath::any();
    let dst = SymPath::any();
    kani::assume(src.len != dst.len);
    let rflags = RenameFlags::from_bits_retain(kani::any());
    let res = root.rename(src.path(), dst.path(), rflags);
    let (ok, ekind) = match &res { Ok(()) => (true, None), Err(e) => (false, Some(cheap_kind(e))) };
    std::mem::forget(res);
    let t = trace();
    let rs = ref_split(src.bytes());
    let rd = ref_split(dst.bytes());
    assert!(t.nres >= 1 && t.nres <= 2 && t.nmut <= 1 && t.mut_after_res);
    assert!(t.res[0].name_len == src.len);
    if t.nres == 2 {
        assert!(t.res[1].name_len == dst.len);
    }
    if t.nmut == 1 {
        let m = t.mutc;
        assert!(m.kind == C_RENAMEAT2);
        assert!(t.nres == 2 && t.res[0].ok && t.res[1].ok && rs.has_base && rd.has_base);
        assert!(m.dirfd == t.res[0].ret_fd);
        assert!(name_is_ref_base(&m.name, m.name_len, src.bytes(), &rs));
        assert!(m.dirfd2 == t.res[1].ret_fd);
        assert!(name_is_ref_base(&m.name2, m.name2_len, dst.bytes(), &rd));
        assert!(m.flags == rflags.bits() as u64);
        assert!(ok == m.ok);
        if !ok {
            assert!(ekind == Some(ErrorKind::OsError(Some(m.errno))));
        }
    } else {
        assert!(!ok);
    }
    fd_table_clean(rootfd, 0);
    kani::cover!(ok, "renamed");
}

op_harness! { fn root_rename_base() { root_rename_body(P_OK, P_OK); } }
op_harness! { fn root_rename_nobase2() { root_rename_body(P_OK, P_FAIL); } }
op_harness! { fn root_rename_nobase1() { root_rename_body(P_FAIL, P_ANY); } }

// ---------------------------------------------------------------------------
// Root::remove_all top level: (parent, name) handed to utils::remove_all

pub(crate) fn k_utils_remove_all<Fd: AsFd>(dirfd: Fd, name: &Path) -> Result<(), Error> {
    let raw = dirfd.as_fd().as_raw_fd();
    let (nm, nl) = copy_name(name);
    let k = kmut();
    k.touch(raw);
    let mut c = NO_CALL;
    c.kind = C_UNLINKAT; // stands for "the recursive removal of (dirfd, name)"
    c.dirfd = raw;
    c.name = nm;
    c.name_len = nl;
    c.flags = 0xdead;
    if k.fails() {
        c.errno = 1;
        k.push(c);
        Err(any_error())
    } else {
        c.ok = true;
        k.push(c);
        Ok(())
    }
}

fn remove_all_top_body(base: u8) {
    let (rootfd, root) = setup();
    kmut().want_base = [base, base];
    let p = SymPath::any();
    let res = root.remove_all(p.path());
    let (ok, ekind) = match &res { Ok(()) => (true, None), Err(e) => (false, Some(cheap_kind(e))) };
    std::mem::forget(res);
    let t = trace();
    let r = ref_split(p.bytes());
    assert!(t.nres == 1 && t.nmut <= 1);
    if t.nmut == 1 {
        let m = t.mutc;
        assert!(m.flags == 0xdead && t.res[0].ok && r.has_base);
        assert!(m.dirfd == t.res[0].ret_fd);
        assert!(name_is_ref_base(&m.name, m.name_len, p.bytes(), &r));
        assert!(ok == m.ok);
    } else {
        assert!(!ok);
        if t.res[0].ok {
            assert!(!r.has_base && ekind == Some(ErrorKind::InvalidArgument));
        }
    }
    fd_table_clean(rootfd, 0);
    kani::cover!(ok, "removed");
    kani::cover!(ekind == Some(ErrorKind::InvalidArgument), "trailing slash refused");
}

macro_rules! rat_h {
    ($name:ident, $b:expr) => {
        #[kani::proof]
        #[kani::unwind(7)]
        #[kani::stub(crate::root::RootRef::resolve_parent, crate::root::RootRef::k_resolve_parent)]
        #[kani::stub(crate::utils::remove_all, k_utils_remove_all)]
        #[kani::stub(alloc::fmt::format, k_format)]
        fn $name() {
            remove_all_top_body($b);
        }
    };
}
rat_h!(root_remove_all_top_base, P_OK);
rat_h!(root_remove_all_top_nobase, P_FAIL);

// ---------------------------------------------------------------------------
// Root::mkdir_all

use crate::resolvers::PartialLookup;

/// `Resolver::resolve_partial`: Complete(handle) | Partial{handle, remaining,
/// last_error} | Err, shape chosen by the harness scenario, data arbitrary.
/// scenario: 0 = complete, 1 = partial with ENOENT, 2 = partial with another error, 3 = Err
pub(crate) fn k_resolve_partial<Fd: AsFd, P: AsRef<Path>>(
    _this: &Resolver,
    root: Fd,
    _path: P,
    _no_follow_trailing: bool,
) -> Result<PartialLookup<Handle>, Error> {
    let raw = root.as_fd().as_raw_fd();
    let k = kmut();
    k.touch(raw);
    let mut c = NO_CALL;
    c.kind = C_RESOLVE;
    c.dirfd = raw;
    let scen = crate::verif_kani::kernel::scratch_get().0;
    if scen == 3 {
        c.errno = 1;
        k.push(c);
        return Err(any_error());
    }
    let fd = k.new_fd(O_RESOLVER, raw, true, (libc::O_PATH | libc::O_CLOEXEC) as u64);
    c.ok = true;
    c.ret_fd = fd;
    k.push(c);
    let handle = Handle::from_fd(owned_fd(fd));
    if scen == 0 {
        Ok(PartialLookup::Complete(handle))
    } else {
        let errno = if scen == 1 {
            libc::ENOENT
        } else {
            let e = any_errno();
            kani::assume(e != libc::ENOENT);
            e
        };
        // the not-yet-existing tail: every byte string <= L chosen by the harness
        let (buf, len) = crate::verif_kani::kernel::tail_get();
        let remaining = PathBuf::from(OsStr::from_bytes(&buf[..len]));
        Ok(PartialLookup::Partial {
            handle,
            remaining,
            last_error: ErrorImpl::OsError {
                operation: "stub".into(),
                source: IOError::from_raw_os_error(errno),
            }
            .into(),
        })
    }
}

impl Handle {
    /// `Handle::reopen`: arbitrary descriptor (same object: stays in-root) or error
    pub(crate) fn k_handle_reopen<F: Into<OpenFlags>>(&self, flags: F) -> Result<File, Error> {
        let raw = self.as_fd().as_raw_fd();
        let k = kmut();
        k.touch(raw);
        let mut c = NO_CALL;
        c.kind = C_REOPEN;
        c.dirfd = raw;
        c.flags = flags.into().bits() as u32 as u64;
        if k.fails() {
            c.errno = 1;
            k.push(c);
            Err(any_error())
        } else {
            let fd = k.new_fd(O_OPENED, raw, true, c.flags | libc::O_CLOEXEC as u64);
            c.ok = true;
            c.ret_fd = fd;
            k.push(c);
            Ok(File::from(owned_fd(fd)))
        }
    }
}

pub(crate) fn k_unsafe_path_unchecked<Fd: AsFd>(_this: &Fd) -> Result<PathBuf, Error> {
    Err(any_error())
}

/// reference: non-empty, non-"." components of the tail, in order (at most 2 fit in L <= 4... 3 bytes each)
struct Comps {
    n: usize,
    start: [usize; 3],
    len: [usize; 3],
    dotdot: bool,
}

fn ref_components(b: &[u8]) -> Comps {
    let mut c = Comps { n: 0, start: [0; 3], len: [0; 3], dotdot: false };
    let mut s = 0;
    let mut i = 0;
    while i <= PATH_L {
        if i <= b.len() && (i == b.len() || b[i] == b'/') {
            let l = i - s;
            let is_dot = l == 1 && b[s] == b'.';
            if l > 0 && !is_dot {
                if l == 2 && b[s] == b'.' && b[s + 1] == b'.' {
                    c.dotdot = true;
                }
                if c.n < 3 {
                    c.start[c.n] = s;
                    c.len[c.n] = l;
                }
                c.n += 1;
            }
            s = i + 1;
        }
        i += 1;
    }
    c
}

fn mkdir_all_body(scen: u64) {
    mkdir_all_body_p(scen, [P_ANY; 8], 0)
}

fn pad(b: &[u8]) -> [u8; PATH_L] {
    let mut out = [0u8; PATH_L];
    let mut i = 0;
    while i < PATH_L {
        if i < b.len() {
            out[i] = b[i];
        }
        i += 1;
    }
    out
}

fn mkdir_all_shape(shape: u64, plan: [u8; 8], fixed_errno: i32) {
    crate::verif_kani::kernel::scratch_set(0, shape, 0, 0);
    mkdir_all_body_p(1, plan, fixed_errno)
}

/// plan: fault plan for [0] reopen, then (mkdirat, openat) per component
fn mkdir_all_body_p(scen: u64, plan: [u8; 8], fixed_errno: i32) {
    let (rootfd, root) = setup();
    {
        let k = kmut();
        let mut i = 0;
        while i < 8 {
            k.plan[i] = plan[i];
            i += 1;
        }
        k.fixed_errno = fixed_errno;
    }
    // tail: every byte string <= L (shape 0) or one of the enumerated concrete shapes
    let shape = crate::verif_kani::kernel::scratch_get().1;
    let tail = match shape {
        1 => SymPath { buf: pad(b"a/b"), len: 3 },
        2 => SymPath { buf: pad(b"a/.."), len: 4 },
        3 => SymPath { buf: pad(b"./a/"), len: 4 },
        4 => SymPath { buf: pad(b"a//b"), len: 4 },
        _ => SymPath::any(),
    };
    crate::verif_kani::kernel::scratch_set(scen, shape, 0, 0);
    crate::verif_kani::kernel::tail_set(&tail.buf, tail.len);
    let mode: u32 = kani::any();
    kani::assume(mode & !0o1777 == 0); // invalid modes: root_mkdir_all_bad_mode
    let res = root.mkdir_all(Path::new("p"), &Permissions::from_mode(mode));
    let (ok, retfd, ekind) = match &res {
        Ok(h) => (true, h.as_fd().as_raw_fd(), None),
        Err(e) => (false, -1, Some(cheap_kind(e))),
    };
    std::mem::forget(res);
    let k = kref();
    assert!(!k.any_violation());
    assert!(k.ncalls >= 1 && k.log[0].kind == C_RESOLVE && k.log[0].dirfd == rootfd);
    let nmk = k.count(C_MKDIRAT);
    let nop = k.count(C_OPENAT);
    if scen >= 2 {
        // resolver error / partial lookup that stopped for a reason other than ENOENT:
        // nothing is created
        assert!(!ok && nmk == 0 && nop == 0 && k.count(C_REOPEN) == 0);
    } else {
        // the deepest existing directory is re-opened O_DIRECTORY first
        assert!(k.ncalls >= 2 && k.log[1].kind == C_REOPEN && k.log[1].dirfd == k.log[0].ret_fd);
        assert!(k.log[1].flags == libc::O_DIRECTORY as u32 as u64);
        let comps = if scen == 1 { ref_components(tail.bytes()) } else { Comps { n: 0, start: [0; 3], len: [0; 3], dotdot: false } };
        if !k.log[1].ok {
            assert!(!ok && nmk == 0 && nop == 0);
        } else if comps.dotdot {
            // '..' in the yet-to-be-created tail is refused before anything is created
            assert!(!ok && nmk == 0 && nop == 0);
            assert!(ekind == Some(ErrorKind::OsError(Some(libc::ENOENT))));
        } else {
            assert!(comps.n <= 3);
            // calls 2.. alternate mkdirat / openat, one pair per component, chained
            let mut cur = k.log[1].ret_fd;
            let mut idx = 2;
            let mut ci = 0;
            let mut aborted = false;
            while ci < 3 {
                if ci < comps.n && !aborted {
                    assert!(idx < k.ncalls);
                    let mk = k.log[idx];
                    assert!(mk.kind == C_MKDIRAT && mk.dirfd == cur && mk.mode == mode);
                    assert!(bytes_eq(&mk.name, mk.name_len, &tail.buf[comps.start[ci]..], comps.len[ci]));
                    assert!(safe_component(&mk.name, mk.name_len));
                    if !mk.ok && mk.errno != libc::EEXIST {
                        aborted = true;
                        assert!(k.ncalls == idx + 1 && !ok);
                        assert!(ekind == Some(ErrorKind::OsError(Some(mk.errno))));
                    } else {
                        assert!(idx + 1 < k.ncalls);
                        let op = k.log[idx + 1];
                        assert!(op.kind == C_OPENAT && op.dirfd == cur);
                        assert!(bytes_eq(&op.name, op.name_len, &tail.buf[comps.start[ci]..], comps.len[ci]));
                        // at the openat_follow boundary (O_CLOEXEC|O_NOCTTY are added below it: O5.1b)
                        let want = (libc::O_DIRECTORY | libc::O_NOFOLLOW) as u32 as u64;
                        assert!(op.flags == want);
                        if !op.ok {
                            aborted = true;
                            assert!(k.ncalls == idx + 2 && !ok);
                        } else {
                            cur = op.ret_fd;
                            idx += 2;
                        }
                    }
                }
                ci += 1;
            }
            if !aborted {
                assert!(k.ncalls == idx);
                assert!(ok && retfd == cur);
            }
        }
    }
    // C11: root + (returned handle) only
    assert!(k.n_open() == 1 + if ok { 1 } else { 0 });
    assert!(k.ent(rootfd).unwrap().open);
    kani::cover!(ok && nmk == 0, "nothing to create");
    kani::cover!(ok && nmk == 1, "one directory created");
    kani::cover!(ok && nmk == 2, "two directories created");
    kani::cover!(!ok && nmk == 0 && scen == 1 && k.count(C_REOPEN) == 1 && k.log[1].ok, "dotdot refused");
    kani::cover!(!ok && nmk >= 1, "aborted midway");
}

macro_rules! mk_h {
    ($name:ident, $scen:expr) => {
        #[kani::proof]
        #[kani::unwind(10)]
        #[kani::stub(crate::resolvers::Resolver::resolve_partial, k_resolve_partial)]
        #[kani::stub(crate::handle::Handle::reopen, crate::handle::Handle::k_handle_reopen)]
        #[kani::stub(<std::os::unix::io::BorrowedFd<'static> as crate::utils::FdExt>::as_unsafe_path_unchecked, k_unsafe_path_unchecked)]
        #[kani::stub(crate::syscalls::mkdirat, k_mkdirat)]
        #[kani::stub(crate::syscalls::openat_follow, k_openat_follow)]
        #[kani::stub(mc::memchr::memchr, k_memchr)]
        #[kani::stub(mc::memchr::memrchr, k_memrchr)]
        #[kani::stub(alloc::fmt::format, k_format)]
        fn $name() {
            mkdir_all_body($scen);
        }
    };
}
macro_rules! mk_p {
    ($name:ident, $plan:expr, $errno:expr) => {
        #[kani::proof]
        #[kani::unwind(10)]
        #[kani::stub(crate::resolvers::Resolver::resolve_partial, k_resolve_partial)]
        #[kani::stub(crate::handle::Handle::reopen, crate::handle::Handle::k_handle_reopen)]
        #[kani::stub(<std::os::unix::io::BorrowedFd<'static> as crate::utils::FdExt>::as_unsafe_path_unchecked, k_unsafe_path_unchecked)]
        #[kani::stub(crate::syscalls::mkdirat, k_mkdirat)]
        #[kani::stub(crate::syscalls::openat_follow, k_openat_follow)]
        #[kani::stub(mc::memchr::memchr, k_memchr)]
        #[kani::stub(mc::memchr::memrchr, k_memrchr)]
        #[kani::stub(alloc::fmt::format, k_format)]
        fn $name() {
            mkdir_all_body_p(1, $plan, $errno);
        }
    };
}
// every kernel step succeeds; the tail (every byte string <= L) and the mode are symbolic
mk_p!(root_mkdir_all_tail_ok, [P_OK; 8], 0);
// the first mkdirat answers EEXIST (racing creator / already there): tolerated
mk_p!(root_mkdir_all_tail_eexist, [P_OK, P_FAIL, P_OK, P_OK, P_OK, P_OK, P_OK, P_OK], libc::EEXIST);
// the first mkdirat fails with EACCES: abort with that errno, nothing else done
mk_p!(root_mkdir_all_tail_mkdir_fails, [P_OK, P_FAIL, P_OK, P_OK, P_OK, P_OK, P_OK, P_OK], libc::EACCES);
// the open of the freshly created first component fails (swapped for a non-directory): abort
mk_p!(root_mkdir_all_tail_open_fails, [P_OK, P_OK, P_FAIL, P_OK, P_OK, P_OK, P_OK, P_OK], libc::ENOTDIR);
macro_rules! mk_s {
    ($name:ident, $shape:expr, $plan:expr, $errno:expr) => {
        #[kani::proof]
        #[kani::unwind(10)]
        #[kani::stub(crate::resolvers::Resolver::resolve_partial, k_resolve_partial)]
        #[kani::stub(crate::handle::Handle::reopen, crate::handle::Handle::k_handle_reopen)]
        #[kani::stub(<std::os::unix::io::BorrowedFd<'static> as crate::utils::FdExt>::as_unsafe_path_unchecked, k_unsafe_path_unchecked)]
        #[kani::stub(crate::syscalls::mkdirat, k_mkdirat)]
        #[kani::stub(crate::syscalls::openat_follow, k_openat_follow)]
        #[kani::stub(mc::memchr::memchr, k_memchr)]
        #[kani::stub(mc::memchr::memrchr, k_memrchr)]
        #[kani::stub(alloc::fmt::format, k_format)]
        fn $name() {
            mkdir_all_shape($shape, $plan, $errno);
        }
    };
}
// enumerated concrete tails (PATH_L >= 4 required), every valid mode, kernel per plan
mk_s!(root_mkdir_all_shape_a_b, 1, [P_OK; 8], 0);
mk_s!(root_mkdir_all_shape_a_dotdot, 2, [P_OK; 8], 0);
mk_s!(root_mkdir_all_shape_dot_a_slash, 3, [P_OK; 8], 0);
mk_s!(root_mkdir_all_shape_a_b_open_fails, 1, [P_OK, P_OK, P_FAIL, P_OK, P_OK, P_OK, P_OK, P_OK], libc::ENOTDIR);
mk_s!(root_mkdir_all_shape_a_b_eexist, 1, [P_OK, P_FAIL, P_OK, P_FAIL, P_OK, P_OK, P_OK, P_OK], libc::EEXIST);
mk_h!(root_mkdir_all_complete, 0);
mk_h!(root_mkdir_all_tail, 1);
mk_h!(root_mkdir_all_partial_other_error, 2);
mk_h!(root_mkdir_all_resolver_error, 3);

#[kani::proof]
#[kani::unwind(10)]
#[kani::stub(crate::resolvers::Resolver::resolve_partial, k_resolve_partial)]
#[kani::stub(crate::handle::Handle::reopen, crate::handle::Handle::k_handle_reopen)]
#[kani::stub(<std::os::unix::io::BorrowedFd<'static> as crate::utils::FdExt>::as_unsafe_path_unchecked, k_unsafe_path_unchecked)]
#[kani::stub(crate::syscalls::mkdirat, k_mkdirat)]
#[kani::stub(crate::syscalls::openat_follow, k_openat_follow)]
#[kani::stub(mc::memchr::memchr, k_memchr)]
#[kani::stub(mc::memchr::memrchr, k_memrchr)]
#[kani::stub(alloc::fmt::format, k_format)]
fn root_mkdir_all_bad_mode() {
    // (the resolver stub answers "Err" so that nothing past the mode check is explored deeply)
    crate::verif_kani::kernel::scratch_set(3, 0, 0, 0);
    let (_rootfd, root) = setup();
    let mode: u32 = kani::any();
    kani::assume(mode & !0o1777 != 0);
    let res = root.mkdir_all(Path::new("p"), &Permissions::from_mode(mode));
    match &res {
        Ok(_) => assert!(false, "mode with type / setuid / setgid bits accepted"),
        Err(e) => assert!(cheap_kind(e) == ErrorKind::InvalidArgument),
    }
    std::mem::forget(res);
    assert!(kref().ncalls == 0, "invalid mode must be refused before any lookup");
    kani::cover!(mode == 0o2755, "setgid refused");
    kani::cover!(mode == libc::S_IFDIR | 0o755, "type bits refused");
}
