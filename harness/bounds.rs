//! Bounds (rewritten by /verif/check per tier).
pub const PATH_L: usize = 4;
pub const MAX_CALLS: usize = 5;
pub const MAX_FDS: usize = 5;
