//! child module of `crate::capi::ret` (feature capi)
//!   capi_ret_* : only successful results are turned into raw descriptors; the descriptor
//!                returned is the one that was produced and it is NOT closed; errors never
//!                leak a descriptor and return an id <= -4096 (C11 / C16 range at the boundary)
#![allow(dead_code, static_mut_refs, clippy::all, unused_imports)]

use super::*;
use crate::verif_kani::kernel::*;
use crate::verif_kani::stubs::*;

pub(crate) fn k_store_error2(err: Error) -> libc::c_int {
    std::mem::forget(err);
    counter_inc(2);
    let id: i32 = kani::any();
    kani::assume(id <= -4096);
    id
}

fn ret_body(kind: u8, okres: bool) {
    install_close_model();
    reset(3);
    counter_reset();
    let fd = kmut().new_fd(O_OPENED, -1, true, libc::O_CLOEXEC as u64);
    let ret = if okres {
        match kind {
            0 => Ok::<OwnedFd, Error>(owned_fd(fd)).into_c_return(),
            1 => Ok::<Handle, Error>(Handle::from_fd(owned_fd(fd))).into_c_return(),
            _ => Ok::<File, Error>(File::from(owned_fd(fd))).into_c_return(),
        }
    } else {
        // the operation failed after having opened something: it must not leak out
        let tmp = owned_fd(fd);
        drop(tmp);
        Err::<OwnedFd, Error>(any_error()).into_c_return()
    };
    let k = kref();
    assert!(!k.any_violation());
    if okres {
        assert!(ret == fd, "a different number than the produced descriptor was returned");
        assert!(k.ent(fd).unwrap().open && k.nclose == 0, "returned descriptor was closed");
        assert!(counter_get(2) == 0);
    } else {
        assert!(ret <= -4096);
        assert!(counter_get(2) == 1);
        assert!(k.n_open() == 0);
    }
    kani::cover!(okres, "ok");
    kani::cover!(!okres, "err");
}

macro_rules! ret_h {
    ($name:ident, $k:expr, $ok:expr) => {
        #[kani::proof]
        #[kani::unwind(8)]
        #[kani::stub(crate::capi::error::store_error, k_store_error2)]
        #[kani::stub(alloc::fmt::format, k_format)]
        fn $name() {
            ret_body($k, $ok);
        }
    };
}
ret_h!(capi_ret_ownedfd_ok, 0, true);
ret_h!(capi_ret_handle_ok, 1, true);
ret_h!(capi_ret_file_ok, 2, true);
ret_h!(capi_ret_err, 0, false);
