//! child module of `crate::capi::core` (feature capi)
//!   capi_mknod_decode : pathrs_inroot_mknod S_IFMT decoding for EVERY mode/dev (C14)
//!   capi_mkdir / capi_creat : mode masking
//!   capi_*_bad_args   : negative fd / NULL path => error id < -4095, nothing touched (C17)
#![allow(dead_code, static_mut_refs, clippy::all, unused_imports)]

use super::*;
use crate::verif_kani::kernel::*;
use crate::verif_kani::stubs::*;

use std::fs::File;
use std::path::Path;

// recording stubs ----------------------------------------------------------

/// (calls, kind, perm mode, dev)
fn rec_create(kind: u8, mode: u32, dev: u64) {
    let n = counter_inc(1);
    crate::verif_kani::kernel::scratch_set(kind as u64, mode as u64, dev, n as u64);
}

impl RootRef<'_> {
    pub(crate) fn k_create<P: AsRef<Path>>(&self, _path: P, inode_type: &InodeType) -> Result<(), Error> {
        match inode_type {
            InodeType::File(p) => rec_create(1, p.mode(), 0),
            InodeType::Directory(p) => rec_create(2, p.mode(), 0),
            InodeType::Symlink(_) => rec_create(3, 0, 0),
            InodeType::Hardlink(_) => rec_create(4, 0, 0),
            InodeType::Fifo(p) => rec_create(5, p.mode(), 0),
            InodeType::CharacterDevice(p, d) => rec_create(6, p.mode(), *d),
            InodeType::BlockDevice(p, d) => rec_create(7, p.mode(), *d),
        }
        if kmut().fails() {
            Err(any_error())
        } else {
            Ok(())
        }
    }

    pub(crate) fn k_create_file<P: AsRef<Path>>(&self, _path: P, flags: OpenFlags, perm: &Permissions) -> Result<File, Error> {
        rec_create(8, perm.mode(), flags.bits() as u32 as u64);
        Err(any_error())
    }

    pub(crate) fn k_resolve_cap<P: AsRef<Path>>(&self, _path: P) -> Result<crate::Handle, Error> {
        rec_create(9, 0, 0);
        Err(any_error())
    }
}

/// `capi::error::store_error`: some id in the documented range (its own
/// behaviour: C16); counts calls.
pub(crate) fn k_store_error(err: Error) -> libc::c_int {
    std::mem::forget(err);
    counter_inc(2);
    let id: i32 = kani::any();
    kani::assume(id <= -4096);
    id
}

macro_rules! capi_h {
    ($name:ident, $body:block) => {
        #[kani::proof]
        #[kani::unwind(8)]
        #[kani::stub(crate::root::RootRef::create, crate::root::RootRef::k_create)]
        #[kani::stub(crate::root::RootRef::create_file, crate::root::RootRef::k_create_file)]
        #[kani::stub(crate::root::RootRef::resolve, crate::root::RootRef::k_resolve_cap)]
        #[kani::stub(crate::capi::error::store_error, k_store_error)]
        #[kani::stub(crate::syscalls::openat2, k_openat2)]
        #[kani::stub(alloc::fmt::format, k_format)]
        fn $name() $body
    };
}

fn init() -> i32 {
    install_close_model();
    reset(3);
    counter_reset();
    crate::verif_kani::kernel::scratch_set(0, 0, 0, 0);
    kmut().plan[0] = P_OK; // backend probe (RootRef::from_fd -> Resolver::default)
    given_fd(true)
}

const NAME: &[u8] = b"a\0";

capi_h!(capi_mknod_decode, {
    let root = init();
    let mode: u32 = kani::any();
    let dev: u64 = kani::any();
    let ret = unsafe { pathrs_inroot_mknod(borrow_fd(root).into(), NAME.as_ptr() as *const c_char, mode, dev) };
    let (kind, pmode, pdev, calls) = crate::verif_kani::kernel::scratch_get();
    let fmt = mode & libc::S_IFMT;
    let want_kind: u64 = if fmt == libc::S_IFREG { 1 } else if fmt == libc::S_IFDIR { 2 } else if fmt == libc::S_IFIFO { 5 }
        else if fmt == libc::S_IFCHR { 6 } else if fmt == libc::S_IFBLK { 7 } else { 0 };
    if want_kind == 0 {
        // S_IFSOCK, S_IFLNK, 0 and undefined type bits: an error id, nothing created
        assert!(calls == 0, "create reached with an invalid S_IFMT");
        assert!(ret <= -4096);
    } else {
        assert!(calls == 1 && kind == want_kind);
        // permission bits are exactly the non-type bits of the C mode
        assert!(pmode == (mode & !libc::S_IFMT) as u64);
        assert!(pdev == if want_kind >= 6 { dev } else { 0 });
        assert!(ret == 0 || ret <= -4096);
    }
    assert!(ret <= 0 && !(ret < 0 && ret > -4096), "error ids never look like -errno");
    kani::cover!(ret == 0 && want_kind == 6, "char device");
    kani::cover!(ret <= -4096 && calls == 0 && fmt == libc::S_IFSOCK, "socket refused");
    kani::cover!(ret <= -4096 && calls == 0 && fmt == 0, "no type bits refused");
});

capi_h!(capi_mkdir_mode, {
    let root = init();
    let mode: u32 = kani::any();
    let ret = unsafe { pathrs_inroot_mkdir(borrow_fd(root).into(), NAME.as_ptr() as *const c_char, mode) };
    let (kind, pmode, _pdev, calls) = crate::verif_kani::kernel::scratch_get();
    assert!(calls == 1 && kind == 2);
    assert!(pmode == (mode & !libc::S_IFMT) as u64);
    assert!(ret == 0 || ret <= -4096);
    kani::cover!(ret == 0, "created");
});

capi_h!(capi_creat_mode, {
    let root = init();
    let mode: u32 = kani::any();
    let flags: i32 = kani::any();
    let ret = unsafe { pathrs_inroot_creat(borrow_fd(root).into(), NAME.as_ptr() as *const c_char, flags, mode) };
    let (kind, pmode, pflags, calls) = crate::verif_kani::kernel::scratch_get();
    assert!(calls == 1 && kind == 8);
    assert!(pmode == (mode & !libc::S_IFMT) as u64);
    assert!(pflags == flags as u32 as u64);
    assert!(ret <= -4096);
    kani::cover!(true, "reached");
});

capi_h!(capi_mknod_bad_args, {
    let root = init();
    let which: bool = kani::any();
    let badfd: i32 = kani::any();
    kani::assume(badfd < 0);
    let mode: u32 = kani::any();
    let ret = if which {
        // negative descriptor (every negative value, -1 and AT_FDCWD included)
        unsafe { pathrs_inroot_mknod(CBorrowedFd::verif_raw(badfd), NAME.as_ptr() as *const c_char, mode, 0) }
    } else {
        // NULL path
        unsafe { pathrs_inroot_mknod(borrow_fd(root).into(), std::ptr::null(), mode, 0) }
    };
    let (_k, _m, _d, calls) = crate::verif_kani::kernel::scratch_get();
    assert!(ret <= -4096, "invalid argument must yield an error id");
    assert!(calls == 0 && counter_get(2) == 1);
    // nothing was opened, closed or looked up on the caller's descriptors
    let k = kref();
    // (the only descriptor that may have been opened and closed again is the one-time
    // "is openat2 supported" probe of Resolver::default())
    assert!(k.nclose <= 1 && k.n_open() == 1 && !k.any_violation());
    assert!(k.ent(root).unwrap().open);
    kani::cover!(which, "negative fd");
    kani::cover!(!which, "NULL path");
});

capi_h!(capi_resolve_bad_args, {
    let root = init();
    let which: bool = kani::any();
    let badfd: i32 = kani::any();
    kani::assume(badfd < 0);
    let ret = if which {
        unsafe { pathrs_inroot_resolve(CBorrowedFd::verif_raw(badfd), NAME.as_ptr() as *const c_char) }
    } else {
        unsafe { pathrs_inroot_resolve(borrow_fd(root).into(), std::ptr::null()) }
    };
    let (_k, _m, _d, calls) = crate::verif_kani::kernel::scratch_get();
    assert!(ret <= -4096);
    assert!(calls == 0 && counter_get(2) == 1);
    let k = kref();
    // (the only descriptor that may have been opened and closed again is the one-time
    // "is openat2 supported" probe of Resolver::default())
    assert!(k.nclose <= 1 && k.n_open() == 1 && !k.any_violation());
    assert!(k.ent(root).unwrap().open);
    kani::cover!(which, "negative fd");
    kani::cover!(!which, "NULL path");
});

// ---------------------------------------------------------------------------
// more entry points: second path argument NULL, reopen through the C entry point

impl RootRef<'_> {
    pub(crate) fn k_rename_cap<P: AsRef<Path>>(&self, _s: P, _d: P, _f: RenameFlags) -> Result<(), Error> {
        rec_create(10, 0, 0);
        Err(any_error())
    }
}

macro_rules! capi2_h {
    ($name:ident, $body:block) => {
        #[kani::proof]
        #[kani::unwind(8)]
        #[kani::stub(crate::root::RootRef::create, crate::root::RootRef::k_create)]
        #[kani::stub(crate::root::RootRef::rename, crate::root::RootRef::k_rename_cap)]
        #[kani::stub(crate::capi::error::store_error, k_store_error)]
        #[kani::stub(crate::syscalls::openat2, k_openat2)]
        #[kani::stub(<std::os::unix::io::BorrowedFd<'static> as crate::utils::FdExt>::metadata, crate::utils::fd::verif_h_fd::k_metadata)]
        #[kani::stub(crate::procfs::ProcfsHandle::open_follow, crate::procfs::ProcfsHandle::k_open_follow)]
        #[kani::stub(crate::procfs::ProcfsHandle::new, crate::resolvers::opath::imp::verif_h_imp::k_procfs_new)]
        #[kani::stub(alloc::fmt::format, k_format)]
        fn $name() $body
    };
}

capi2_h!(capi_second_path_null, {
    let root = init();
    let sel: u8 = kani::any();
    kani::assume(sel < 3);
    let ret = match sel {
        // rename with a NULL destination, symlink / hardlink with a NULL target
        0 => unsafe { pathrs_inroot_rename(borrow_fd(root).into(), NAME.as_ptr() as *const c_char, std::ptr::null(), kani::any()) },
        1 => unsafe { pathrs_inroot_symlink(borrow_fd(root).into(), NAME.as_ptr() as *const c_char, std::ptr::null()) },
        _ => unsafe { pathrs_inroot_hardlink(borrow_fd(root).into(), NAME.as_ptr() as *const c_char, std::ptr::null()) },
    };
    let (_k, _m, _d, calls) = crate::verif_kani::kernel::scratch_get();
    assert!(ret <= -4096, "NULL path must yield an error id");
    assert!(calls == 0, "operation reached with a NULL path");
    assert!(counter_get(2) == 1);
    let k = kref();
    assert!(k.n_open() == 1 && !k.any_violation() && k.ent(root).unwrap().open);
    kani::cover!(sel == 0, "rename");
    kani::cover!(sel == 2, "hardlink");
});

capi2_h!(capi_reopen_entry, {
    // pathrs_reopen: negative descriptors refused; creation flags refused at the C boundary too
    install_close_model();
    reset(3);
    counter_reset();
    crate::verif_kani::kernel::of_set(0, 0, false, -1);
    let fd = given_fd(true);
    {
        let k = kmut();
        let i = k.idx(fd).unwrap();
        kani::assume(k.fds[i].st_mode & libc::S_IFMT != libc::S_IFLNK);
    }
    let raw: i32 = if kani::any() { fd } else { let r: i32 = kani::any(); kani::assume(r < 0); r };
    let bits: i32 = kani::any();
    let creation = bits & (libc::O_CREAT | libc::O_EXCL) != 0 || bits & libc::O_TMPFILE == libc::O_TMPFILE;
    let ret = pathrs_reopen(CBorrowedFd::verif_raw(raw), bits);
    let (calls, oflags, _ts, opened) = crate::verif_kani::kernel::of_get();
    if raw < 0 {
        assert!(ret <= -4096 && calls == 0 && kref().ncalls == 0);
    } else if creation {
        assert!(ret <= -4096, "pathrs_reopen must refuse creation flags");
        assert!(calls == 0, "creation flags reached the procfs open");
    } else if ret >= 0 {
        assert!(calls == 1 && ret == opened && oflags == bits & !libc::O_NOFOLLOW);
    } else {
        assert!(ret <= -4096);
    }
    assert!(kref().ent(fd).unwrap().open && !kref().any_violation());
    kani::cover!(ret >= 0, "reopened");
    kani::cover!(raw >= 0 && creation, "creation flags refused");
    kani::cover!(raw < 0, "negative fd refused");
});
