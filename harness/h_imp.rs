//! child module of `crate::resolvers::opath::imp`
//!   imp_may_follow_link : emulated fs.protected_symlinks == kernel rule
//!                         (fs/namei.c may_follow_link) for all uid/mode/sysctl values (C15)
#![allow(dead_code, static_mut_refs, clippy::all, unused_imports)]

use super::*;
use crate::error::verif_h_error::cheap_kind;
use crate::error::ErrorKind;
use crate::procfs::ProcfsHandle;
use crate::verif_kani::kernel::*;
use crate::verif_kani::stubs::*;

/// `ProcfsHandle::new` for the global handle: any handle will do, the stubbed
/// sysctl reader never looks at it.
pub(crate) fn k_procfs_new() -> Result<ProcfsHandle, Error> {
    let fd = kmut().new_fd(O_PRIVATE_PROC, -1, false, 0);
    Ok(ProcfsHandle::verif_dummy(fd))
}

fn may_follow_body(dir_plan: u8, link_plan: u8) {
    install_close_model();
    reset(3);
    let dir = given_fd(true);
    let link = given_fd(true);
    {
        let k = kmut();
        k.plan[0] = dir_plan;
        k.plan[1] = link_plan;
    }
    let res = may_follow_link(borrow_fd(dir), borrow_fd(link));
    let (ok, kind) = match &res {
        Ok(()) => (true, None),
        Err(e) => (false, Some(cheap_kind(e))),
    };
    std::mem::forget(res);
    let k = kref();
    let d = k.ent(dir).unwrap();
    let l = k.ent(link).unwrap();
    let euid = crate::verif_kani::kernel::model_euid();
    let sysctl = crate::verif_kani::kernel::model_sysctl();
    if dir_plan == P_OK && link_plan == P_OK {
        // transcribed from fs/namei.c:may_follow_link()
        //   if (!sysctl_protected_symlinks) return 0;
        //   if (uid_eq(current_fsuid(), inode->i_uid)) return 0;            /* follower owns the link */
        //   if ((parent->i_mode & (S_ISVTX|S_IWOTH)) != (S_ISVTX|S_IWOTH)) return 0;
        //   if (uid_valid(parent->i_uid) && uid_eq(parent->i_uid, inode->i_uid)) return 0;
        //   return -EACCES;
        let sticky_ww = d.st_mode & (libc::S_ISVTX | libc::S_IWOTH) == (libc::S_ISVTX | libc::S_IWOTH);
        let allowed = sysctl == 0 || l.st_uid == euid || !sticky_ww || d.st_uid == l.st_uid;
        assert!(ok == allowed);
        if !ok {
            assert!(kind == Some(ErrorKind::OsError(Some(libc::EACCES))));
        }
        kani::cover!(ok && sysctl == 0, "sysctl off: nothing refused");
        kani::cover!(ok && sysctl != 0 && sticky_ww && l.st_uid == euid, "own link in sticky world-writable dir");
        kani::cover!(ok && sysctl != 0 && sticky_ww && l.st_uid != euid, "link owned by directory owner");
        kani::cover!(!ok, "refused with EACCES");
    } else {
        // a failing stat never turns into permission to follow
        assert!(!ok);
        kani::cover!(!ok, "stat failure refuses");
    }
}

macro_rules! mfl_h {
    ($name:ident, $d:expr, $l:expr) => {
        #[kani::proof]
        #[kani::unwind(6)]
        #[kani::stub(<std::os::unix::io::BorrowedFd<'static> as crate::utils::FdExt>::metadata, crate::utils::fd::verif_h_fd::k_metadata)]
        #[kani::stub(crate::syscalls::geteuid, k_model_geteuid)]
        #[kani::stub(crate::utils::sysctl_read_parse, k_sysctl_read_parse)]
        #[kani::stub(crate::procfs::ProcfsHandle::new, k_procfs_new)]
        #[kani::stub(alloc::fmt::format, k_format)]
        fn $name() {
            may_follow_body($d, $l);
        }
    };
}
mfl_h!(imp_may_follow_link, P_OK, P_OK);
mfl_h!(imp_may_follow_link_dirstat_fails, P_FAIL, P_OK);
mfl_h!(imp_may_follow_link_linkstat_fails, P_OK, P_FAIL);
