//! trivial harness used by /verif/check for the "build once" step
#[kani::proof]
fn codegen_probe() {
    let x: u8 = kani::any();
    assert!(x as u16 <= 255);
    kani::cover!(true, "reached");
}
