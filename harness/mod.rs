//! Kani harnesses for libpathrs (copied into a scratch copy of /repo by
//! /verif/check; never part of /repo).  Harnesses that need private items
//! live in h_*.rs files which /verif/check attaches as CHILD modules of the
//! real source files; this module holds what they share.
pub mod bounds;
pub mod kernel;
pub mod probe;
pub mod stubs;
