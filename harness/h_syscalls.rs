//! child module of `crate::syscalls`: the wrappers' OWN bodies, with the boundary
//! moved down to the rustix API (C05 / O5.1)
//!   sys_openat_flags        : openat always adds O_NOFOLLOW|O_CLOEXEC|O_NOCTTY, removes nothing
//!   sys_openat_follow_flags : openat_follow adds O_CLOEXEC|O_NOCTTY only
//!   sys_stat_flags          : fstatat / statx always AT_SYMLINK_NOFOLLOW|AT_NO_AUTOMOUNT|AT_EMPTY_PATH
//!   sys_badfd               : negative descriptors other than AT_FDCWD never reach rustix
#![allow(dead_code, static_mut_refs, clippy::all, unused_imports)]

use super::*;
use crate::verif_kani::kernel::*;
use ::rustix as rx;

fn rec(kind: u8, raw: i32, flags: u64, mode: u32) {
    let k = kmut();
    let mut c = NO_CALL;
    c.kind = kind;
    c.dirfd = raw;
    c.flags = flags;
    c.mode = mode;
    c.ok = true;
    k.push(c);
}

pub(crate) fn k_rx_openat<P: rx::path::Arg, Fd: AsFd>(
    dirfd: Fd,
    _path: P,
    oflags: rx::fs::OFlags,
    create_mode: Mode,
) -> rx::io::Result<OwnedFd> {
    let raw = dirfd.as_fd().as_raw_fd();
    rec(C_OPENAT, raw, oflags.bits() as u64, create_mode.bits());
    let fd = kmut().new_fd(O_OPENED, raw, false, oflags.bits() as u64);
    Ok(owned_fd(fd))
}

pub(crate) fn k_rx_statat<P: rx::path::Arg, Fd: AsFd>(dirfd: Fd, _path: P, flags: AtFlags) -> rx::io::Result<Stat> {
    rec(C_FSTATAT, dirfd.as_fd().as_raw_fd(), flags.bits() as u64, 0);
    Ok(zero_stat())
}

pub(crate) fn k_rx_statx<P: rx::path::Arg, Fd: AsFd>(
    dirfd: Fd,
    _path: P,
    flags: AtFlags,
    mask: StatxFlags,
) -> rx::io::Result<Statx> {
    rec(C_STATX, dirfd.as_fd().as_raw_fd(), flags.bits() as u64, mask.bits());
    Ok(unsafe { std::mem::zeroed() })
}

pub(crate) fn k_rx_unlinkat<P: rx::path::Arg, Fd: AsFd>(dirfd: Fd, _path: P, flags: AtFlags) -> rx::io::Result<()> {
    rec(C_UNLINKAT, dirfd.as_fd().as_raw_fd(), flags.bits() as u64, 0);
    Ok(())
}

pub(crate) fn k_rx_mkdirat<P: rx::path::Arg, Fd: AsFd>(dirfd: Fd, _path: P, mode: Mode) -> rx::io::Result<()> {
    rec(C_MKDIRAT, dirfd.as_fd().as_raw_fd(), 0, mode.bits());
    Ok(())
}

macro_rules! sys_h {
    ($name:ident, $body:block) => {
        #[kani::proof]
        #[kani::unwind(6)]
        #[kani::stub(rx::fs::openat, k_rx_openat)]
        #[kani::stub(rx::fs::statat, k_rx_statat)]
        #[kani::stub(rx::fs::statx::statx, k_rx_statx)]
        #[kani::stub(rx::fs::unlinkat, k_rx_unlinkat)]
        #[kani::stub(rx::fs::mkdirat, k_rx_mkdirat)]
        #[kani::stub(alloc::fmt::format, k_format)]
        fn $name() $body
    };
}

const ADDED: i32 = libc::O_CLOEXEC | libc::O_NOCTTY;

sys_h!(sys_openat_flags, {
    install_close_model();
    reset(3);
    let d = given_fd(true);
    let bits: i32 = kani::any();
    let mode: u32 = kani::any();
    let res = openat(borrow_fd(d), "n", OpenFlags::from_bits_retain(bits), mode);
    let ok = res.is_ok();
    std::mem::forget(res);
    let k = kref();
    assert!(ok && k.ncalls == 1 && k.log[0].kind == C_OPENAT && k.log[0].dirfd == d);
    // forbids following, close-on-exec, never a controlling terminal; nothing removed
    assert!(k.log[0].flags == (bits | libc::O_NOFOLLOW | ADDED) as u32 as u64);
    // rustix Mode::from_raw_mode strips the S_IFMT bits, nothing else
    assert!(k.log[0].mode == mode & !libc::S_IFMT);
    kani::cover!(bits & libc::O_NOFOLLOW == 0, "caller did not ask for O_NOFOLLOW");
});

sys_h!(sys_openat_follow_flags, {
    install_close_model();
    reset(3);
    let d = given_fd(true);
    let bits: i32 = kani::any();
    let mode: u32 = kani::any();
    let res = openat_follow(borrow_fd(d), "n", OpenFlags::from_bits_retain(bits), mode);
    let ok = res.is_ok();
    std::mem::forget(res);
    let k = kref();
    assert!(ok && k.ncalls == 1 && k.log[0].kind == C_OPENAT && k.log[0].dirfd == d);
    assert!(k.log[0].flags == (bits | ADDED) as u32 as u64);
    kani::cover!(bits & libc::O_NOFOLLOW == 0, "following open");
});

sys_h!(sys_stat_flags, {
    install_close_model();
    reset(3);
    let d = given_fd(true);
    let which: bool = kani::any();
    let want = (libc::AT_SYMLINK_NOFOLLOW | libc::AT_NO_AUTOMOUNT | libc::AT_EMPTY_PATH) as u64;
    if which {
        let r = fstatat(borrow_fd(d), "n");
        assert!(r.is_ok());
        std::mem::forget(r);
        assert!(kref().ncalls == 1 && kref().log[0].kind == C_FSTATAT && kref().log[0].flags == want);
    } else {
        let mask: u32 = kani::any();
        let r = statx(borrow_fd(d), "n", StatxFlags::from_bits_retain(mask));
        assert!(r.is_ok());
        std::mem::forget(r);
        assert!(kref().ncalls == 1 && kref().log[0].kind == C_STATX && kref().log[0].flags == want && kref().log[0].mode == mask);
    }
    kani::cover!(which, "fstatat");
    kani::cover!(!which, "statx");
});

sys_h!(sys_badfd, {
    install_close_model();
    reset(3);
    let raw: i32 = kani::any();
    // (-1 cannot be represented in a BorrowedFd at all: std reserves it as the niche)
    kani::assume(raw < -1 && raw != libc::AT_FDCWD);
    let fd = borrow_fd(raw);
    let sel: u8 = kani::any();
    kani::assume(sel < 5);
    let refused = match sel {
        0 => { let r = openat(fd, "n", OpenFlags::from_bits_retain(kani::any()), 0); let e = matches!(&r, Err(Error::InvalidFd { .. })); std::mem::forget(r); e }
        1 => { let r = fstatat(fd, "n"); let e = matches!(&r, Err(Error::InvalidFd { .. })); std::mem::forget(r); e }
        2 => { let r = statx(fd, "n", StatxFlags::empty()); let e = matches!(&r, Err(Error::InvalidFd { .. })); std::mem::forget(r); e }
        3 => { let r = unlinkat(fd, "n", AtFlags::empty()); let e = matches!(&r, Err(Error::InvalidFd { .. })); std::mem::forget(r); e }
        _ => { let r = mkdirat(fd, "n", 0o755); let e = matches!(&r, Err(Error::InvalidFd { .. })); std::mem::forget(r); e }
    };
    assert!(refused);
    assert!(kref().ncalls == 0, "an invalid descriptor number reached the kernel interface");
    kani::cover!(raw == -libc::EBADF, "-EBADF");
    kani::cover!(sel == 4, "mkdirat");
});
