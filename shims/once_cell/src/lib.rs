//! Single-threaded `Lazy`/`OnceCell` with the same observable semantics as
//! once_cell for a sequential program: the initialiser runs at most once, at
//! the first dereference; a panic in the initialiser propagates.
pub mod sync {
    use core::cell::UnsafeCell;
    use core::ops::Deref;

    pub struct OnceCell<T> {
        v: UnsafeCell<Option<T>>,
    }
    unsafe impl<T: Sync + Send> Sync for OnceCell<T> {}
    unsafe impl<T: Send> Send for OnceCell<T> {}
    impl<T> OnceCell<T> {
        pub const fn new() -> Self {
            Self { v: UnsafeCell::new(None) }
        }
        pub fn get(&self) -> Option<&T> {
            unsafe { (*self.v.get()).as_ref() }
        }
        pub fn set(&self, value: T) -> Result<(), T> {
            if self.get().is_some() {
                return Err(value);
            }
            unsafe { *self.v.get() = Some(value) };
            Ok(())
        }
        pub fn get_or_init<F: FnOnce() -> T>(&self, f: F) -> &T {
            if self.get().is_none() {
                let val = f();
                unsafe { *self.v.get() = Some(val) };
            }
            self.get().unwrap()
        }
    }
    impl<T: core::fmt::Debug> core::fmt::Debug for OnceCell<T> {
        fn fmt(&self, f: &mut core::fmt::Formatter<'_>) -> core::fmt::Result {
            f.write_str("OnceCell(..)")
        }
    }

    pub struct Lazy<T, F = fn() -> T> {
        cell: OnceCell<T>,
        init: UnsafeCell<Option<F>>,
    }
    unsafe impl<T, F: Send> Sync for Lazy<T, F> where OnceCell<T>: Sync {}
    impl<T, F> Lazy<T, F> {
        pub const fn new(f: F) -> Self {
            Self { cell: OnceCell::new(), init: UnsafeCell::new(Some(f)) }
        }
    }
    impl<T, F: FnOnce() -> T> Lazy<T, F> {
        pub fn force(this: &Self) -> &T {
            this.cell.get_or_init(|| {
                let f = unsafe { (*this.init.get()).take() };
                match f {
                    Some(f) => f(),
                    None => panic!("Lazy instance has previously been poisoned"),
                }
            })
        }
    }
    impl<T, F: FnOnce() -> T> Deref for Lazy<T, F> {
        type Target = T;
        fn deref(&self) -> &T {
            Self::force(self)
        }
    }
    impl<T: core::fmt::Debug, F> core::fmt::Debug for Lazy<T, F> {
        fn fmt(&self, f: &mut core::fmt::Formatter<'_>) -> core::fmt::Result {
            f.write_str("Lazy(..)")
        }
    }
}
